"""C05 - Property values always conform to the Property's dtype, in normal form.

Decided (shape clauses): closed writer sets for _values and _dtype; every element that enters
_values is the result of dtypes.get(<input>, <current dtype>) evaluated after the last dtype
store; every dtype ever stored is None, passed valid_type, came from infer_dtype or is a
rollback; the dispatch table covers every DType member; every converter returns the python
type of its dtype (no pass-through, no sub-second part); refused value edits leave _values and
_dtype untouched (ATOM restricted to these fields) and rollback handlers catch everything.
NOT decided: which inputs convert (acceptance sets), idempotence get(set(v)) == v per value,
odml_tuple_import heuristics, strict versus non-strict acceptance.
"""
import ast

from .. import analysis
from ..astutil import calls_in, call_name, where
from ..cfg import build_cfg
from ..dataflow import private_closure
from ..facts import instance_fields
from ..fold import Folder, Unfoldable
import re

from ..model import AnalysisError, ClassInfo, unparse, walk_no_nested, canonical_name
from ..symtext import Expander, effect_calls
from ..tables import STRING_KIND_DTYPES
from ..logic import known
from .c06 import run_atom, handler_rule
from .rules_types import value_type, validated_before

DECIDED = [
    "OWN-3 _values and _dtype are written only by the enumerated BaseProperty methods",
    "PROV-3 every element entering _values is dtypes.get(<input>, self.dtype) evaluated after the last store to _dtype",
    "PROV-4 every store to _dtype is None, a value that passed dtypes.valid_type, the result of dtypes.infer_dtype, or a rollback",
    "TAB-1 every DType member has <name>_get/_set converters in dtypes or is a documented string kind",
    "RET-1 every converter returns the python type of its dtype (dates/times built by strptime with second resolution formats)",
    "ATOM (values/dtype) a refused value edit leaves _values and _dtype as they were; HANDLER-1 rollback handlers catch everything",
    'REGEX-2 every regular expression valid_type applies to the dtype name spans the whole name (fullmatch, or anchored for the method used)',
]
NOT_DECIDED = ["acceptance set of each converter", "normal forms / idempotence of get(set(v))", "odml_tuple_import heuristics",
               "strict vs non-strict acceptance in extend/append/insert"]

VALUE_WRITERS = ("__init__", "values.setter", "__setitem__", "remove", "extend", "append", "insert")
DTYPE_WRITERS = ("__init__", "dtype.setter", "values.setter")

RETURN_TYPES = {
    "int_get": ("default:int", "int"), "float_get": ("default:float", "float"), "str_get": ("default:string", "str"),
    "boolean_get": ("default:boolean", "bool"), "date_get": ("default:date", "date"), "time_get": ("default:time", "time"),
    "datetime_get": ("default:datetime", "datetime"),
}
RETURN_FORMS = {
    "int_get": ("default_values('int')", "int(string)", "int(float(string))"),
    "float_get": ("default_values('float')", "float(string)"),
    "str_get": ("default_values('string')", "str(string)"),
    "boolean_get": ("default_values('boolean')", "True", "False"),
    "date_get": ("default_values('date')", "dt.datetime.strptime(string.isoformat(), FORMAT_DATE).date()",
                 "dt.datetime.strptime(string, FORMAT_DATE).date()"),
    "time_get": ("default_values('time')", "dt.datetime.strptime(string.strftime(FORMAT_TIME), FORMAT_TIME).time()",
                 "dt.datetime.strptime(string, FORMAT_TIME).time()"),
    "datetime_get": ("default_values('datetime')", "dt.datetime.strptime(string.strftime(FORMAT_DATETIME), FORMAT_DATETIME)",
                     "dt.datetime.strptime(string, FORMAT_DATETIME)"),
}
DEFAULT_TYPES = {"string": str, "text": str, "int": int, "float": float, "url": str, "boolean": bool}


def _is_valid_type_call(leaf, var):
    return isinstance(leaf, ast.Call) and call_name(leaf).split(".")[-1] == "valid_type" and len(leaf.args) == 1 \
        and isinstance(leaf.args[0], ast.Name) and leaf.args[0].id == var


def short_name(f):
    return f.qualname.split("BaseProperty.", 1)[1] if "BaseProperty." in f.qualname else f.name


def ret1_rule(prog, rep):
    """RET-1 (shared with C01/C02: a value written as text is re-read by these converters, so they must return normal forms)."""
    dmod = prog.module_of("dtypes")
    fd0 = Folder(prog)
    fd = fd0
    # ----------------------------------------------------------------- RET-1
    rep.rule("RET-1", "return expressions of the converters, by form: int_get -> int(...), float_get -> float(...), str_get -> str(...), "
                      "boolean_get -> True/False, date_get -> strptime(.., FORMAT_DATE).date(), time_get -> strptime(.., FORMAT_TIME)"
                      ".time(), datetime_get -> strptime(.., FORMAT_DATETIME); defaults via default_values(<literal>); "
                      "tuple_get -> list of stripped strings of the required length; no converter returns its argument unchanged")
    def fold_const(e):
        return fd0.try_fold(e, dmod, default=None)
    from . import rules_types
    rules_types.TABLES = dict((nm, vals[-1]) for nm, vals in dmod.assigns.items() if len(vals) == 1 and isinstance(vals[-1], ast.Dict)
                              and all(isinstance(k, ast.Constant) for k in vals[-1].keys))
    for name, allowed in sorted(RETURN_TYPES.items()):
        f = dmod.functions.get(name)
        if f is None:
            raise AnalysisError("dtypes.%s vanished" % name)
        rep.saw_function(f)
        g = build_cfg(f)
        xr = Expander(f, g, inline=prog)
        rets = [n for n in g.nodes if n.kind == "return"]
        rep.floor("RET-1", len(rets), 1, "returns in %s" % name)
        for rn in rets:
            r = xr.expand(rn.ast.value, rn) if rn.ast.value is not None else None
            ts = value_type(r, g, rn, f.params, fold_const, inline_call=lambda c: xr._inline_call(c, None, 0, set())) if r is not None else set(["None"])
            rep.check(ts <= set(allowed), "RET-1", "%s returns %s" % (name, "/".join(sorted(ts))), "typed result",
                      "%s returns `%s` of shape %s, not one of %s (e.g. a pass-through keeps foreign types / sub-second parts)"
                      % (name, unparse(r)[:70] if r is not None else "None", sorted(ts), list(allowed)), where(f, rn.ast),
                      witness="a datetime with microseconds / a str for dtype int is stored as is")
    # str_get: emptiness is membership in (None, '', [], {}) - a truthiness test would turn the numbers 0 and 0.0 into ''
    from ..astutil import truthiness_tests
    sg = dmod.functions.get("str_get")
    for h in private_closure(sg):
        for n in ast.walk(h.node):
            for t0 in ([n.test] if isinstance(n, (ast.If, ast.IfExp, ast.While)) else []):
                for txt, pol, e0 in truthiness_tests(t0):
                    if isinstance(e0, ast.Name) and e0.id in h.params:
                        rep.fail("RET-1", "%s|truthiness of %s" % (h.short, e0.id), "%s decides by the truthiness of `%s` what counts as empty: 0 and 0.0 "
                                 "are falsy and come out as the default ''" % (h.short, e0.id), where(h, n),
                                 witness="non strict merge of an int Property holding 0 into a string Property: '' instead of '0'")
    # int_get: the detour over float() is the fall back for text that int() refused, never the way an exact integer takes
    ig = dmod.functions.get("int_get")
    for h in private_closure(ig):
        hg = build_cfg(h)
        for n in hg.nodes:
            for r0 in n.expr_roots():
                for c in calls_in(r0):
                    if call_name(c) == "float" and len(c.args) == 1:
                        arg = unparse(c.args[0])
                        in_handler = False
                        for tr in ast.walk(h.node):
                            if isinstance(tr, ast.Try):
                                tried = any(isinstance(y, ast.Call) and call_name(y) == "int" and len(y.args) == 1 and unparse(y.args[0]) == arg
                                            for b in tr.body for y in ast.walk(b))
                                for hd0 in tr.handlers:
                                    catches = hd0.type is not None and "ValueError" in unparse(hd0.type)
                                    if tried and catches and any(y is c for b in hd0.body for y in ast.walk(b)):
                                        in_handler = True
                        rep.check(in_handler, "RET-1", "%s: float(%s) only after int(%s) refused it" % (h.name, arg, arg), "inside `except ValueError` of the exact conversion",
                                  "%s converts through float(%s) on a path where int(%s) was not tried first: an exact integer above 2**53 (a native int, "
                                  "as the RDF and JSON readers deliver it) is rounded" % (h.short, arg, arg), where(h, c),
                                  witness="int Property with the value 9007199254740993 comes back as 9007199254740992")
    fd = Folder(prog)
    for nm, want in (("FORMAT_DATE", "%Y-%m-%d"), ("FORMAT_DATETIME", "%Y-%m-%d %H:%M:%S"), ("FORMAT_TIME", "%H:%M:%S")):
        try:
            v = fd.module_const("odml.dtypes", nm)
        except Unfoldable:
            v = None
        rep.check(v == want, "RET-1", "dtypes.%s" % nm, repr(v), "%s is %r: values would carry another resolution than seconds" % (nm, v), dmod.path)
    dv = dmod.functions.get("default_values")
    rep.saw_function(dv)
    table = [n for n in ast.walk(dv.node) if isinstance(n, ast.Dict)]
    ok = len(table) == 1
    if ok:
        d = fd.try_fold(table[0], dmod, default={})
        for k, ty in DEFAULT_TYPES.items():
            rep.check(k in d and type(d[k]) is ty, "RET-1", "default value of %s" % k, repr(d.get(k)),
                      "default value of dtype %s is %r, not a %s" % (k, d.get(k), ty.__name__), where(dv, table[0]))
    dg = build_cfg(dv)
    dx = Expander(dv, dg, inline=prog)
    dts = set()
    for rn in [n for n in dg.nodes if n.kind == "return" and n.ast.value is not None]:
        dts |= value_type(dx.expand(rn.ast.value, rn), dg, rn, dv.params, fold_const, inline_call=lambda c: dx._inline_call(c, None, 0, set()))
    typed = set(t for t in dts if not t.startswith("?:") or t.startswith("?:default_dtype_value") or "[" in t)
    bad = sorted(t for t in dts if t in ("datetime-now", "time-with-microseconds") or t.startswith("param"))
    for kind in ("datetime", "date", "time"):
        rep.check(kind in dts and not bad, "RET-1", "default value of %s has no sub-second part" % kind, str(sorted(dts)),
                  "default_values returns %s: the default %s is missing or carries microseconds" % (sorted(dts), kind), dv.where,
                  witness="an empty %s value carries microseconds" % kind)
    tg = dmod.functions.get("tuple_get")
    rep.saw_function(tg)
    g = build_cfg(tg)
    rets = [n for n in g.nodes if n.kind == "return"]
    cnt_param = tg.params[1] if len(tg.params) > 1 else "count"
    shapes = set()
    tgx = Expander(tg, g, inline=prog)
    for rn in rets:
        ts = value_type(tgx.expand(rn.ast.value, rn), g, rn, tg.params, fold_const) if rn.ast.value is not None else set(["None"])
        shapes |= ts
        if "strlist" in ts and isinstance(rn.ast.value, ast.Name):
            lv = rn.ast.value.id

            def classify(leaf, lv=lv, cnt_param=cnt_param):
                if isinstance(leaf, ast.Compare) and len(leaf.ops) == 1 and isinstance(leaf.ops[0], ast.Is) \
                        and unparse(leaf.left) == cnt_param and unparse(leaf.comparators[0]) == "None":
                    return "N"
                if isinstance(leaf, ast.Compare) and len(leaf.ops) == 1 and isinstance(leaf.ops[0], ast.Eq):
                    sides = set([unparse(leaf.left), unparse(leaf.comparators[0])])
                    if sides == set(["len(%s)" % lv, cnt_param]):
                        return "E"
                return None
            good = known(g, rn, classify, lambda a: a["N"] or a["E"], ["N", "E"])
            rep.check(good, "RET-1", "tuple_get enforces the tuple length", "every path to the return knows count is None or len == count",
                      "tuple_get can return a list whose length differs from the required count", where(tg, rn.ast),
                      witness="a 3-tuple value is accepted for dtype 2-tuple")
    rep.check(shapes <= set(["None", "strlist"]) and "strlist" in shapes, "RET-1", "tuple_get returns a list of stripped strings or None", str(sorted(shapes)),
              "tuple_get returns %s" % sorted(shapes), tg.where)
    # aliases
    for alias, target in (("bool_get", "boolean_get"), ("bool_set", "boolean_get"), ("string_get", "str_get"), ("str_set", "str_get"),
                          ("time_set", "time_get"), ("date_set", "date_get"), ("datetime_set", "datetime_get"), ("boolean_set", "boolean_get")):
        r = prog.resolve_symbol("odml.dtypes", alias)
        rep.check(getattr(r, "name", None) == target, "RET-1", "alias %s -> %s" % (alias, target), "ok",
                  "dtypes.%s no longer is %s" % (alias, target), dmod.path)



def _is_module_namespace(e):
    """the expression denotes the namespace dictionary of the module it is written in"""
    t = unparse(e).replace('"', "'")
    return t in ("globals()", "sys.modules[__name__].__dict__", "vars(sys.modules[__name__])", "vars()",
                 "importlib.import_module(__name__).__dict__")


def run(prog, rep):
    rep.decided = DECIDED
    rep.not_decided = NOT_DECIDED
    an = analysis.get(prog)
    an.note_coverage(rep)
    S = an.s
    cls = prog.cls("BaseProperty")
    dmod = prog.module_of("dtypes")
    fd0 = Folder(prog)

    # ----------------------------------------------------------------- OWN-3
    rep.rule("OWN-3", "stores to / mutations of <x>._values occur only in BaseProperty.{%s}; stores to _dtype only in {%s}; "
                      "no other class or module touches them" % (", ".join(VALUE_WRITERS), ", ".join(DTYPE_WRITERS)))
    n_v = n_d = 0
    for f in prog.all_functions():
        for n in walk_no_nested(f.node):
            hits = []
            if isinstance(n, (ast.Assign, ast.AugAssign)):
                for t in (n.targets if isinstance(n, ast.Assign) else [n.target]):
                    if isinstance(t, ast.Attribute) and t.attr in ("_values", "_dtype"):
                        hits.append((t.attr, "store"))
                    if isinstance(t, ast.Subscript) and isinstance(t.value, ast.Attribute) and t.value.attr == "_values":
                        hits.append(("_values", "item store"))
            elif isinstance(n, ast.Delete):
                for t in n.targets:
                    if isinstance(t, ast.Subscript) and isinstance(t.value, ast.Attribute) and t.value.attr == "_values":
                        hits.append(("_values", "del item"))
            elif isinstance(n, ast.Call) and isinstance(n.func, ast.Attribute) and isinstance(n.func.value, ast.Attribute) \
                    and n.func.value.attr == "_values" and n.func.attr in ("append", "extend", "insert", "remove", "pop", "clear", "sort", "reverse"):
                hits.append(("_values", n.func.attr))
            for field, what in hits:
                owner = f.cls is cls
                allowed = VALUE_WRITERS if field == "_values" else DTYPE_WRITERS
                sn = short_name(f)
                if field == "_values":
                    n_v += 1
                else:
                    n_d += 1
                rep.check(owner and sn in allowed, "OWN-3", "%s: %s %s" % (f.short, what, field), "allowed writer",
                          "%s writes %s (%s) but is not one of the owner methods: values may enter the Property unconverted"
                          % (f.short, field, what), where(f, n), witness="a value of the wrong python type ends up in Property.values")
    rep.floor("OWN-3", n_v, 7, "writes to _values")
    rep.floor("OWN-3", n_d, 5, "stores to _dtype")

    # ---------------------------------------------------------------- PROV-3
    rep.rule("PROV-3", "every value put into _values (store of the whole list, item store, append/extend/insert argument) is [] "
                       "or built from dtypes.get(<v>, self.dtype|self._dtype) calls; between that conversion and the end of the method "
                       "there is no store to _dtype")
    for name in VALUE_WRITERS:
        f = cls.lookup_prop("values", "setter") if name == "values.setter" else cls.lookup_method(name)
        if f is None:
            raise AnalysisError("BaseProperty.%s vanished" % name)
        rep.saw_function(f)
        g = S.cfg(f)
        me = f.params[0]
        for node in g.nodes:
            st = node.ast
            vals = []
            if node.kind == "stmt" and isinstance(st, ast.Assign):
                t = st.targets[0]
                if unparse(t) == "%s._values" % me:
                    vals.append(st.value)
                elif isinstance(t, ast.Subscript) and unparse(t.value) == "%s._values" % me:
                    vals.append(st.value)
            if node.kind == "stmt" and isinstance(st, ast.Expr) and isinstance(st.value, ast.Call):
                c = st.value
                if isinstance(c.func, ast.Attribute) and unparse(c.func.value) == "%s._values" % me and c.func.attr in ("append", "extend", "insert"):
                    vals.append(c.args[-1])
            for v in vals:
                ok, conv = _conversion_of(v, f, me, prog)
                rep.check(ok, "PROV-3", "%s: _values <- %s" % (f.short, unparse(v)[:50]), "conversion result",
                          "%s puts `%s` into _values without dtypes.get(<value>, self.dtype)" % (f.short, unparse(v)[:70]), where(f, st),
                          witness="a raw input (e.g. the text '3' for dtype int) is stored unconverted")
                if ok and conv is not None:
                    # no dtype store after the conversion
                    later = [m for m in g.nodes if m.kind == "stmt" and isinstance(m.ast, ast.Assign)
                             and unparse(m.ast.targets[0]) == "%s._dtype" % me and g.reaches(node, m, skip_kinds=("exc",))]
                    rep.check(not later, "PROV-3", "%s: dtype fixed before converting" % f.short, "no later _dtype store",
                              "%s stores _dtype after values were converted with the previous dtype" % f.short, where(f, st),
                              witness="values converted for the old dtype are kept under the new one")

    # ---------------------------------------------------------------- PROV-4
    rep.rule("PROV-4", "stores to _dtype: None; a parameter on the true side of dtypes.valid_type(<it>) (or after `not valid_type` "
                       "raised); dtypes.infer_dtype(...); a local saved from self._dtype earlier (rollback)")
    for name in DTYPE_WRITERS:
        f = cls.lookup_prop(name.split(".")[0], "setter") if name.endswith(".setter") else cls.lookup_method(name)
        g = S.cfg(f)
        me = f.params[0]
        for node in g.nodes:
            st = node.ast
            if not (node.kind == "stmt" and isinstance(st, ast.Assign) and unparse(st.targets[0]) == "%s._dtype" % me):
                continue
            v = st.value
            vt = unparse(v)
            ok = False
            why = ""
            if isinstance(v, ast.Constant) and v.value is None:
                ok, why = True, "None"
            elif isinstance(v, ast.Call) and call_name(v) == "dtypes.infer_dtype":
                ok, why = True, "infer_dtype"
            elif isinstance(v, ast.Name):
                good, _ = validated_before(g, node, v.id, _is_valid_type_call)
                if good:
                    ok, why = True, "passed valid_type on every path"
                else:
                    from ..astutil import local_assignments
                    defs = local_assignments(f.node, v.id)
                    if defs and all(unparse(d) == "%s._dtype" % me for d in defs):
                        ok, why = True, "rollback of a saved dtype"
            rep.check(ok, "PROV-4", "%s: _dtype = %s" % (f.short, vt[:30]), why,
                      "%s stores `%s` as dtype without dtypes.valid_type / infer_dtype" % (f.short, vt[:50]), where(f, st),
                      witness="Property(dtype='no-such-type') keeps the invalid dtype")
    inf = dmod.functions.get("infer_dtype")
    vt = dmod.functions.get("valid_type")
    if inf is None or vt is None:
        raise AnalysisError("dtypes.infer_dtype / valid_type vanished")
    rep.saw_function(inf)
    dtc = dmod.classes.get("DType")
    dtype_values = set(v.value for v in dtc.attrs.values() if isinstance(v, ast.Constant) and isinstance(v.value, str)) if dtc else set()
    g = build_cfg(inf)
    for node in g.nodes:
        if node.kind == "return" and node.ast.value is not None:
            v = node.ast.value
            if isinstance(v, ast.Constant):
                ok = v.value in dtype_values
            else:
                ok = isinstance(v, ast.Name) and validated_before(
                    g, node, v.id, _is_valid_type_call, lambda dv: isinstance(dv, ast.Constant) and dv.value in dtype_values)[0]
            rep.check(ok, "PROV-4", "infer_dtype returns %s" % unparse(v), "a valid type", "infer_dtype may return `%s`, which is not "
                      "known to be a valid odML type" % unparse(v), where(inf, node.ast))

    # ----------------------------------------------------------------- TAB-1
    rep.rule("TAB-1", "for every member d of dtypes.DType: module dtypes defines d_get (aliases followed) or d is one of "
                      "the string kinds %s, which fall back to the string converter; get()/set() dispatch on dtype + '_get'/'_set' "
                      "with str_get/str_set as default" % sorted(STRING_KIND_DTYPES))
    dt = dmod.classes.get("DType")
    if dt is None:
        raise AnalysisError("dtypes.DType vanished")
    members = [k for k, v in dt.attrs.items() if isinstance(v, ast.Constant) and isinstance(v.value, str)]
    rep.floor("TAB-1", len(members), 10, "DType members")
    for m in members:
        val = dt.attrs[m].value
        rep.check(val == m, "TAB-1", "DType.%s value" % m, repr(val), "DType.%s has value %r: str(member) and value disagree" % (m, val),
                  dmod.path)
        for suf in ("_get",):      # serialisation (_set) may fall back to str() for every type
            r = prog.resolve_symbol("odml.dtypes", m + suf)
            have = hasattr(r, "qualname")
            rep.check(have or m in STRING_KIND_DTYPES, "TAB-1", "converter %s%s" % (m, suf), getattr(r, "short", "string fallback"),
                      "dtype '%s' has no %s%s converter and is not a string kind: its values are stored as text" % (m, m, suf), dmod.path,
                      witness="Property(dtype='%s').values = ... keeps strings" % m)
    for fn, suf, default in (("get", "_get", "str_get"), ("set", "_set", "str_set")):
        f = dmod.functions.get(fn)
        rep.saw_function(f)
        txt = unparse(f.node)
        # module level aliases (str_set = str_get): any name of the same function is the same default
        same = set([default])
        for _ in range(3):
            for st0 in dmod.tree.body:
                if isinstance(st0, ast.Assign) and len(st0.targets) == 1 and isinstance(st0.targets[0], ast.Name) and isinstance(st0.value, ast.Name):
                    if st0.targets[0].id in same or st0.value.id in same:
                        same |= set([st0.targets[0].id, st0.value.id])
        rep.check(any("self.get(dtype + '%s', %s)" % (suf, d0) in txt for d0 in same), "TAB-1", "dtypes.%s dispatches on dtype + '%s'" % (fn, suf), "ok",
                  "dtypes.%s no longer dispatches through the module table with %s as default" % (fn, default), f.where)
        routed = False
        for eff in effect_calls(prog, f, lambda c, suf=suf: canonical_name(prog, f, c.func) == "dtypes.tuple%s" % suf):
            for t0, p0 in eff.guards():
                m0 = re.match(r"^%s\.endswith\((.+)\)$" % re.escape(f.params[1]), t0)
                if m0 and p0:
                    try:
                        lit = fd0.try_fold(ast.parse(m0.group(1), mode="eval").body, dmod, default=None)
                    except SyntaxError:
                        lit = None
                    routed = routed or lit == "-tuple"
        rep.check(routed, "TAB-1", "dtypes.%s handles n-tuple types" % fn, "ok",
                  "dtypes.%s no longer routes '<n>-tuple' types to the tuple converter" % fn, f.where)
    slf = dmod.assigns.get("self", [])
    rep.check(bool(slf) and _is_module_namespace(slf[-1]), "TAB-1", "dtypes.self is the module dictionary", "ok",
              "the dispatch table `self` is no longer the module's __dict__", dmod.path)

    ret1_rule(prog, rep)
    regex2_rule(prog, rep, vt)

    # ------------------------------------------------------------------ ATOM
    rep.rule("ATOM", "ATOM analysis (see C06) of the value editing methods of BaseProperty; a finding counts for C05 when the write "
                     "that survives the refusal is to _values or _dtype")
    from ..atom import Atom
    from ..contracts import ATOM_CONTRACTS
    A = Atom(an, ATOM_CONTRACTS)
    funcs = [cls.lookup_method(n) for n in ("__init__", "__setitem__", "remove", "extend", "append", "insert", "merge", "clone")]
    funcs += [cls.lookup_prop("values", "setter"), cls.lookup_prop("dtype", "setter"), cls.lookup_prop("value", "setter")]
    paths = 0
    for f in funcs:
        rep.saw_function(f)
        r = A.analyse(f)
        paths += r["paths"]
        bad = {}
        for fd0 in r["findings"]:
            if fd0.kind != "own":
                continue
            ws = [w for w in fd0.writes if w.field in ("_values", "_dtype")]
            if ws:
                bad.setdefault("%s|%s" % (f.short, fd0.via()), (fd0, ws[0]))
        if not bad:
            rep.ok("ATOM", "%s: %d exceptional paths keep _values and _dtype" % (f.short, r["paths"]), "ok", f.where)
        for key, (fd0, w) in sorted(bad.items()):
            rep.fail("ATOM", key, "%s: %s (`%s`) is changed and then `%s` refuses with %s@%s" % (f.short, w.field, w.text[:50], fd0.via(),
                                                                                             fd0.site.exc, fd0.site.origin[0]),
                     f.where, witness="the refused call leaves %s changed" % w.field)
    rep.analysed["paths"] += paths
    rep.floor("ATOM", paths, 150, "exceptional paths of the value editing methods")
    rep.trusted += [{"id": c["id"], "reason": c["reason"], "obligations": c["obligations"], "derived": c["derived"]} for c in ATOM_CONTRACTS
                    if c["id"] in ("VALIDATED", "CLONE-VALUES", "MERGE-EXTEND")]
    n = handler_rule(prog, rep, funcs, "HANDLER-1")
    rep.floor("HANDLER-1", n, 1, "rollback handlers")
    # _validate_values catches everything (basis of the VALIDATED discharge)
    vv = cls.lookup_method("_validate_values")
    from ..contracts import _validate_values_shape

    class _A(object):
        pass
    holder = _A()
    holder.an = an
    rep.check(_validate_values_shape(holder), "ATOM",
              "_validate_values converts inside try/except Exception", "ok",
              "_validate_values no longer converts every value with dtypes.get(val, self.dtype) under `except Exception: return False`", vv.where,
              witness="an unconvertible value raises something else than ValueError, or passes validation")
    from ..report import import_verdicts
    import_verdicts(prog, rep, "C11", ("ALIAS-1",), "STORE-1",
                    "the values setter stores the list it has just converted on every normal path: a shortcut that keeps the old list when the "
                    "new one compares equal (1 == 1.0 == True) leaves values of the previous dtype behind after a dtype change")
    rep.assume("python's int()/float()/str()/strptime return the types their names say")


def _conversion_of(v, f, me, prog=None):
    """(ok, conversion node) - v is [] or built from dtypes.get(x, self.dtype|self._dtype) (locals expanded)"""
    x = Expander(f)

    def is_get(c):
        return isinstance(c, ast.Call) and (canonical_name(prog, f, c.func) if prog is not None else call_name(c)) == "dtypes.get" \
            and len(c.args) == 2 and unparse(c.args[1]) in ("%s.dtype" % me, "%s._dtype" % me)
    vx = x.expand(v)
    if isinstance(vx, ast.List) and not vx.elts:
        return True, None
    if is_get(vx):
        return True, v
    if isinstance(vx, (ast.ListComp, ast.GeneratorExp)) and is_get(vx.elt):
        return True, v
    if isinstance(v, ast.Name):
        from ..astutil import local_assignments
        defs = local_assignments(f.node, v.id)
        if defs and all(not isinstance(d, ast.AugAssign) and (is_get(x.expand(d)) or (isinstance(x.expand(d), ast.ListComp) and is_get(x.expand(d).elt))) for d in defs):
            return True, defs[0]
    return False, None


_RE_METHODS = ("match", "fullmatch", "search", "findall", "finditer")


def _anchors(pattern):
    """(anchored at the start, anchored at the end) for the whole pattern: every top level alternative starts with ^ / \\A and ends with $ / \\Z"""
    try:
        import re._parser as sp          # python >= 3.11
    except ImportError:                  # pragma: no cover
        import sre_parse as sp
    try:
        tree = list(sp.parse(pattern))
    except Exception:
        return None

    def alts(seq):
        seq = list(seq)
        if len(seq) == 1 and str(seq[0][0]) == "BRANCH":
            return [list(a) for a in seq[0][1][1]]
        if len(seq) == 1 and str(seq[0][0]) == "SUBPATTERN":
            return alts(seq[0][1][3])
        return [seq]

    def at(it, names):
        return str(it[0]) == "AT" and str(it[1]) in names
    al = alts(tree)
    start = all(a and at(a[0], ("AT_BEGINNING", "AT_BEGINNING_STRING")) for a in al)
    end = all(a and at(a[-1], ("AT_END", "AT_END_STRING")) for a in al)
    return start, end


def regex2_rule(prog, rep, vt, rule="REGEX-2"):
    """valid_type accepts a dtype by regular expression only when the expression spans the whole name"""
    from ..dataflow import private_closure
    rep.rule(rule, "every regular expression that dtypes.valid_type (and its private helpers) applies to the dtype name is applied to the whole name: "
                   "fullmatch, or match with a pattern that ends in $ / \\Z, or search / findall with a pattern anchored at both ends. "
                   "Otherwise a name that merely starts with (contains) a valid type is accepted and stored as dtype")
    dmod = prog.module_of("dtypes")
    fd = Folder(prog)
    n = 0
    for f in private_closure(vt):
        for c in ast.walk(f.node):
            if not (isinstance(c, ast.Call) and isinstance(c.func, ast.Attribute) and c.func.attr in _RE_METHODS):
                continue
            recv = c.func.value
            pat = None
            if canonical_name(prog, f, recv) == "re" and c.args:
                pat = c.args[0]
            else:
                comp = recv
                if isinstance(comp, ast.Name):
                    defs = [st.value for st in ast.walk(f.node) if isinstance(st, ast.Assign) and len(st.targets) == 1
                            and isinstance(st.targets[0], ast.Name) and st.targets[0].id == comp.id]
                    if not defs:
                        defs = list(f.module.assigns.get(comp.id, []))
                    comp = defs[0] if len(defs) == 1 else None
                if isinstance(comp, ast.Call) and canonical_name(prog, f, comp.func) == "re.compile" and comp.args:
                    pat = comp.args[0]
            if pat is None:
                continue
            n += 1
            try:
                text = fd.try_fold(pat, f.module, default=None)
            except Exception:
                text = None
            if not isinstance(text, str):
                rep.fail(rule, "%s|computed-pattern" % f.short, "the pattern %s is not a constant: whether it spans the whole name is not readable"
                         % unparse(pat)[:60], where(f, c))
                continue
            anc = _anchors(text)
            m = c.func.attr
            good = anc is not None and (m == "fullmatch" or (m == "match" and anc[1]) or (anc[0] and anc[1]))
            rep.check(good, rule, "%s: %s of %r" % (f.short, m, text), "spans the whole dtype name",
                      "%s applies %r with %s(): the expression is not tied to %s of the name, so a name with extra text passes as a valid dtype"
                      % (f.short, text, m, "the end" if anc and (anc[0] or m == "match") else "both ends"), where(f, c),
                      witness="Property(dtype='2-tuple-of-something') is accepted; its values are then converted as 2-tuples")
    rep.note("%s: %d regular expression uses in valid_type" % (rule, n))
