"""ORDER-1: compute before open.

Between opening a file for writing and closing it, only `file.write(e)` calls may
occur, where evaluating `e` cannot fail: constants, names bound before the open,
%-formatting of a *constant* format string with as many plain operands as it has
conversion specifiers, str.replace on a text local with such operands, str() of a
text local, string concatenation of those.  Anything else (a call into repository
code, a may-raise library call, a %-format whose format string is data) would run
while the target file is already truncated.
"""
import ast
import re

from ..astutil import call_name, where, kw
from ..cfg import build_cfg
from ..dataflow import reaching_defs, def_value, node_defs
from ..model import unparse, walk_no_nested

WRITE_MODE = re.compile(r"[wax+]")
_SPEC = re.compile(r"%(?:\([^)]*\))?[#0\- +]*(?:\*|\d+)?(?:\.(?:\*|\d+))?[hlL]?([diouxXeEfFgGcrsa%])")


def is_write_open(call):
    if not (isinstance(call, ast.Call) and call_name(call) in ("open", "io.open", "codecs.open")):
        return None
    mode = kw(call, "mode", 1)
    if mode is None:
        return False     # default mode 'r'
    if isinstance(mode, ast.Constant) and isinstance(mode.value, str):
        return bool(WRITE_MODE.search(mode.value))
    return True           # computed mode: assume it may write


def open_sites(func):
    """[(kind, stmt, call, file_var)] for every write-mode open in func."""
    out = []
    for n in walk_no_nested(func.node):
        if isinstance(n, ast.With):
            for item in n.items:
                if is_write_open(item.context_expr):
                    var = item.optional_vars.id if isinstance(item.optional_vars, ast.Name) else None
                    out.append(("with", n, item.context_expr, var))
        elif isinstance(n, ast.Assign) and is_write_open(n.value):
            var = n.targets[0].id if isinstance(n.targets[0], ast.Name) else None
            out.append(("assign", n, n.value, var))
    # opens not bound at all (passed on, returned) are reported by the caller
    return out


def _const_str(prog, func, expr):
    """constant string value of expr (literal or module-level constant), else None."""
    from ..fold import Folder
    if isinstance(expr, ast.Constant) and isinstance(expr.value, str):
        return expr.value
    if isinstance(expr, ast.Name):
        try:
            v = Folder(prog).module_const(func.module.name, expr.id)
            if isinstance(v, str):
                return v
        except Exception:
            return None
    return None


class Purity(object):
    def __init__(self, prog, func, g, open_node, file_var):
        self.prog = prog
        self.func = func
        self.g = g
        self.open_node = open_node
        self.file_var = file_var
        self.why = ""

    def bound_before_open(self, name, at_node):
        """is the local `name` definitely bound before the open (all reaching defs at the
        use dominate the open node or are parameters)?  Also accepts locals (re)defined
        after the open by an allowed pure assignment (checked when that assignment is
        visited)."""
        if name in self.func.params and name != self.func.params[0]:
            return True
        defs = reaching_defs(self.g, at_node, name)
        if not defs:
            return False
        for d in defs:
            if d.kind == "entry":
                if name in self.func.params:
                    continue
                # module-level name
                if _const_str(self.prog, self.func, ast.Name(id=name, ctx=ast.Load())) is not None:
                    continue
                return False
        return True

    def param_is_text(self, name, at_node):
        """a parameter that is formatted after the open is text only when an `isinstance(<parameter>, str)` test that came out true
        dominates the use and the parameter was not re-bound: `"%s" % p` raises for a tuple p, and runs p.__str__ for anything else"""
        if name not in self.func.params[1:] or at_node is None:
            return False
        if any(d.kind != "entry" for d in reaching_defs(self.g, at_node, name)):
            return False
        from ..kinds import _isinstance_atoms
        for test, pol, _ in self.g.dominating_conditions(at_node):
            if pol not in ("true", "false"):
                continue
            for sub, spol in _isinstance_atoms(test, pol == "true"):
                if spol and unparse(sub.args[0]) == name and unparse(sub.args[1]) in ("str", "(str,)"):
                    return True
        return False

    def text_local(self, name, at_node, depth=0):
        """all definitions of `name` reaching at_node produce text."""
        if depth > 4:
            return False
        defs = reaching_defs(self.g, at_node, name)
        if not defs:
            return False
        for d in defs:
            if d.kind == "entry":
                if _const_str(self.prog, self.func, ast.Name(id=name, ctx=ast.Load())) is not None:
                    continue
                return False
            v = def_value(d, name)
            if v is None or not self.text_expr(v, d, depth + 1):
                return False
        return True

    def text_expr(self, v, at_node, depth=0):
        if isinstance(v, ast.Constant) and isinstance(v.value, str):
            return True
        if isinstance(v, ast.Name):
            return self.text_local(v.id, at_node, depth)
        if isinstance(v, ast.Call):
            fn = call_name(v)
            if fn == "str":
                return True
            if isinstance(v.func, ast.Attribute) and v.func.attr in ("decode", "replace", "strip", "join", "format"):
                return True
            if fn in ("ET.tounicode",):
                return True
            if depth < 4 and self._helper_returns_text(v, depth):
                return True
        if isinstance(v, ast.BinOp) and isinstance(v.op, ast.Mod) and _const_str(self.prog, self.func, v.left) is not None:
            return True
        if isinstance(v, ast.BinOp) and isinstance(v.op, ast.Add):
            return self.text_expr(v.left, at_node, depth) and self.text_expr(v.right, at_node, depth)
        if isinstance(v, ast.IfExp):
            return self.text_expr(v.body, at_node, depth) and self.text_expr(v.orelse, at_node, depth)
        if isinstance(v, ast.JoinedStr):
            return True
        return False

    def _helper_returns_text(self, call, depth):
        """the call goes to a private helper (module function or method of the same class) all of whose return values are text"""
        from ..symtext import _is_private_helper_call
        try:
            tgt = _is_private_helper_call(self.func, call)
        except Exception:
            tgt = None
        if tgt is None or tgt is self.func or tgt.is_generator:
            return False
        hg = build_cfg(tgt)
        rets = [n for n in hg.nodes if n.kind == "return"]
        if not rets or any(n.ast.value is None for n in rets):
            return False
        # falling off the end returns None
        if any(k0 != "return" and p.kind not in ("raise",) and k0 != "exc" for k0, p in hg.exit.pred):
            return False
        hp = Purity(self.prog, tgt, hg, None, None)
        return all(hp.text_expr(n.ast.value, n, depth + 1) for n in rets)

    def pure(self, e, at_node, _inlined=False):
        """evaluating e after the open cannot raise."""
        if not _inlined and any(isinstance(y, ast.Call) for y in ast.walk(e)):
            # calls of expression-like private helpers are judged by what they compute
            from ..symtext import Expander
            try:
                e2 = Expander(self.func, self.g, inline=self.prog, expand_names=False).expand(e, at_node)
            except Exception:
                e2 = e
            return self.pure(e2, at_node, True)
        if isinstance(e, ast.Constant):
            return True
        if isinstance(e, ast.Name):
            if e.id in ("True", "False", "None"):
                return True
            if self.bound_before_open(e.id, at_node):
                return True
            self.why = "name %s is not bound on every path" % e.id
            return False
        if isinstance(e, ast.BinOp) and isinstance(e.op, ast.Mod):
            fmt = _const_str(self.prog, self.func, e.left)
            if fmt is None:
                self.why = "%%-format whose format string is not a constant: %s" % unparse(e)[:80]
                return False
            specs = [m for m in _SPEC.findall(fmt) if m != "%"]
            bad = re.sub(_SPEC, "", fmt)
            if "%" in bad:
                self.why = "malformed format string"
                return False
            args = e.right.elts if isinstance(e.right, ast.Tuple) else [e.right]
            if len(specs) != len(args):
                self.why = "format string has %d specifiers for %d operands" % (len(specs), len(args))
                return False
            for s, a in zip(specs, args):
                if not self.pure(a, at_node):
                    return False
                if s not in "sr" and not isinstance(a, ast.Constant):
                    self.why = "numeric conversion %%%s of non-constant operand" % s
                    return False
                if isinstance(a, ast.Name) and not (self.text_local(a.id, at_node)
                                                    or _const_str(self.prog, self.func, a) is not None
                                                    or self.param_is_text(a.id, at_node)):
                    self.why = "%%s of %s, which is not known to be text" % a.id
                    return False
            return True
        if isinstance(e, ast.BinOp) and isinstance(e.op, ast.Add):
            ok = self.pure(e.left, at_node) and self.pure(e.right, at_node) and \
                self.text_expr(e.left, at_node) and self.text_expr(e.right, at_node)
            if not ok and not self.why:
                self.why = "concatenation of values not known to be text"
            return ok
        if isinstance(e, ast.Call):
            fn = call_name(e)
            if fn == "str" and len(e.args) == 1 and not e.keywords:
                a = e.args[0]
                if isinstance(a, ast.Name) and self.text_local(a.id, at_node):
                    return True
                if isinstance(a, ast.Constant):
                    return True
                self.why = "str(%s) of a value not known to be text runs its __str__ after the open" % unparse(a)[:40]
                return False
            if isinstance(e.func, ast.Attribute) and e.func.attr == "replace" and len(e.args) == 2 \
                    and isinstance(e.func.value, ast.Name) and self.text_local(e.func.value.id, at_node):
                ok = all(self.pure(a, at_node) and self.text_expr(a, at_node) for a in e.args)
                if not ok and not self.why:
                    self.why = "str.replace with operands not known to be text"
                return ok
            if isinstance(e.func, ast.Attribute) and e.func.attr == "format" and not e.keywords:
                fmt = _const_str(self.prog, self.func, e.func.value)
                if fmt is not None:
                    import string as _string
                    try:
                        fields = [(fn2, spec, conv) for _, fn2, spec, conv in _string.Formatter().parse(fmt) if fn2 is not None]
                    except ValueError:
                        fields = None
                    if fields is not None and all((fn2 == "" or fn2.isdigit()) and not spec and conv in (None, "s", "r") for fn2, spec, conv in fields):
                        auto = [x for x in fields if x[0] == ""]
                        idx_ok = (len(auto) == len(fields) and len(auto) == len(e.args)) or \
                            (not auto and all(int(x[0]) < len(e.args) for x in fields))
                        if idx_ok:
                            ok = True
                            for a in e.args:
                                if not self.pure(a, at_node):
                                    ok = False
                                elif isinstance(a, ast.Name) and not (self.text_local(a.id, at_node) or _const_str(self.prog, self.func, a) is not None
                                                                      or self.param_is_text(a.id, at_node)):
                                    self.why = "{} of %s, which is not known to be text" % a.id
                                    ok = False
                            if ok:
                                return True
                            return False
            self.why = "call %s(...) after the file was opened" % fn
            return False
        if isinstance(e, ast.JoinedStr):
            # f"...{x}..." formats x with format(x, ""): the same demands as %s of a constant format string
            for part in e.values:
                if isinstance(part, ast.Constant):
                    continue
                if not isinstance(part, ast.FormattedValue) or part.format_spec is not None or part.conversion not in (-1, 115, 114):
                    self.why = "f-string with a format specification: %s" % unparse(e)[:80]
                    return False
                a = part.value
                if not self.pure(a, at_node):
                    return False
                if isinstance(a, ast.Name) and not (self.text_local(a.id, at_node) or _const_str(self.prog, self.func, a) is not None
                                                    or self.param_is_text(a.id, at_node)):
                    self.why = "{%s} in an f-string, which is not known to be text" % a.id
                    return False
            return True
        if isinstance(e, ast.BoolOp):
            return all(self.pure(v, at_node) for v in e.values)
        if isinstance(e, ast.UnaryOp) and isinstance(e.op, ast.Not):
            return self.pure(e.operand, at_node)
        if isinstance(e, ast.IfExp):
            return self.pure(e.test, at_node) and self.pure(e.body, at_node) and self.pure(e.orelse, at_node)
        self.why = "expression %s" % unparse(e)[:80]
        return False


def compute_before_open(prog, rep, funcs, rule="ORDER-1", floor=None):
    rep.rule(rule, "typestate per write-mode open(): between the open and the end of its with block "
                   "(or close()), only <file>.write(e) calls, pure local assignments and pure tests occur; "
                   "`e` must be un-failable (constants, names bound before the open, %-format of a constant "
                   "format string with matching plain operands, replace/str/+ on text locals)")
    total = 0
    for func in funcs:
        rep.saw_function(func)
        g = build_cfg(func)
        sites = open_sites(func)
        for kind, st, call, fvar in sites:
            total += 1
            inst = "%s: open(%s)" % (func.short, ", ".join(unparse(a) for a in call.args))
            open_node = None
            for n in g.nodes:
                if n.kind == "with" and n.ast is st and n.info["item"].context_expr is call:
                    open_node = n
                if n.kind == "stmt" and n.ast is st:
                    open_node = n
            if open_node is None or fvar is None:
                rep.fail(rule, func.short + "|open-unbound", "write-mode open whose handle is not bound to a local name",
                         where(func, st))
                continue
            pur = Purity(prog, func, g, open_node, fvar)
            # region: nodes reachable from the open until the handle is released
            region = []
            seen = set()
            stack = [m for k, m in open_node.succ if k != "exc"]
            bad = None
            while stack and bad is None:
                n = stack.pop()
                if n.id in seen:
                    continue
                seen.add(n.id)
                if n.kind == "withexit" and n.ast is st:
                    continue
                if n.kind in ("exit", "raise_exit"):
                    if kind == "assign":
                        bad = (n, "function may end without closing the file")
                    continue
                if n.kind == "stmt" and isinstance(n.ast, ast.Expr) and isinstance(n.ast.value, ast.Call):
                    c = n.ast.value
                    fn = call_name(c)
                    if fn == "%s.close" % fvar and kind == "assign":
                        continue   # released
                    if fn == "%s.write" % fvar and len(c.args) == 1 and not c.keywords:
                        if not pur.pure(c.args[0], n):
                            bad = (n, "argument of %s.write is not un-failable: %s" % (fvar, pur.why))
                    else:
                        bad = (n, "call %s(...) while the file is open for writing" % fn)
                elif n.kind == "stmt" and isinstance(n.ast, ast.Assign) and all(isinstance(t, ast.Name) for t in n.ast.targets):
                    if not pur.pure(n.ast.value, n):
                        bad = (n, "assignment computed while the file is open: %s" % pur.why)
                elif n.kind == "branch":
                    if not pur.pure(n.ast.test, n):
                        bad = (n, "test evaluated while the file is open: %s" % pur.why)
                elif n.kind in ("join", "withexit"):
                    pass
                elif n.kind == "stmt" and isinstance(n.ast, ast.Pass):
                    pass
                else:
                    bad = (n, "%s statement while the file is open: %s" % (n.kind, unparse(n.ast).split("\n")[0][:80]))
                region.append(n)
                for k, m in n.succ:
                    if k != "exc":
                        stack.append(m)
            key = "%s|open(%s)" % (func.short, unparse(call.args[0]) if call.args else "?")
            if bad is None:
                rep.ok(rule, inst, "%d statements between open and release, all un-failable" % len(region), where(func, st))
            else:
                rep.fail(rule, key, bad[1], where(func, bad[0].ast),
                         witness="make that computation fail while saving over an existing file: the file is left empty/truncated")
    if floor is not None:
        rep.floor(rule, total, floor, "write-mode opens")
    return total
