"""Origin labels, effect (write) summaries and return-origin summaries.

Origin of an object reference relative to the function being analysed:
    (root, tag)   root in {'P0','P1',..(parameter index), 'FRESH', 'GLOBAL', 'UNK', 'CONST'}
                  tag  in {''      the object itself,
                           'val'   an object stored in one of its fields / container elements,
                           'child' an element of its child lists (any depth),
                           'up'    its parent chain / document,
                           'reach' anything reachable from it (path lookups, merge targets)}
A Write records a visible mutation: (kind, field, op, origin) with kind in
{'attr','list','fs'}; writes whose receiver is FRESH or CONST are invisible to callers.
"""
import ast

from .cfg import build_cfg
from .dataflow import reaching_defs, def_value
from .events import node_events
from .kinds import Kinds, LIST_MUTATORS, DICT_MUTATORS, SET_MUTATORS, UNKNOWN
from .model import FuncInfo, unparse, walk_no_nested

CHILD_LISTS = ("_sections", "_props", "sections", "properties", "props")
UP_ATTRS = ("parent", "_parent", "document")
REACH_ATTRS = ("_merged",)
FRESH_CALLS = ("copy.copy", "copy.deepcopy", "dict", "list", "set", "tuple", "sorted", "str", "int", "float",
               "bool", "repr", "len", "enumerate", "zip", "map", "filter", "range", "reversed")
FS_WRITE_CALLS = {"os.makedirs": 0, "os.mkdir": 0, "os.remove": 0, "os.unlink": 0, "os.rename": 1, "os.replace": 1,
                  "os.rmdir": 0, "shutil.rmtree": 0, "shutil.copy": 1, "shutil.copyfile": 1, "shutil.move": 1,
                  "tempfile.mkdtemp": None, "tempfile.mkstemp": None}


def compose(outer, inner):
    """tag of (object with tag `inner` relative to an object that has tag `outer`)."""
    if outer == "":
        return inner
    if inner == "":
        return outer
    if outer == inner and outer in ("child", "val"):
        return outer
    if outer == "child" and inner == "val":
        return "child"
    return "reach"


class Write(object):
    __slots__ = ("kind", "field", "op", "origin", "func", "lineno", "text", "via")

    def __init__(self, kind, field, op, origin, func, lineno, text, via=()):
        self.kind = kind
        self.field = field
        self.op = op
        self.origin = origin
        self.func = func      # short name of the function containing the primitive write
        self.lineno = lineno
        self.text = text
        self.via = via

    def key(self):
        return (self.kind, self.field, self.op, self.origin, self.func, self.text)

    def visible(self):
        return self.origin[0] not in ("FRESH", "CONST")

    def __repr__(self):
        return "W(%s %s.%s %s @%s:%s)" % (self.op, "%s%s" % (self.origin[0], ("/" + self.origin[1]) if self.origin[1] else ""),
                                          self.field, self.kind, self.func, self.lineno)


class Summaries(object):
    def __init__(self, prog, kinds=None, param_table=None):
        self.p = prog
        self.k = kinds or Kinds(prog, param_table)
        self.elem = {}        # func -> {var: set(origin)} element origins of local containers
        self.ret_origin = {}  # func -> set(origin)
        self.W = {}           # func -> {key: Write}
        self.cfgs = {}
        self.call_targets = {}   # id(call ast) -> targets
        self.unresolved = []
        self.n_calls = 0
        self._name_cache = {}
        self._name_busy = set()
        self._known_local = {}
        self._locals = {}
        self._nw_cache = {}
        self._comp_targets = {}
        self._final = False
        self._solve()

    def cfg(self, f):
        if f.qualname not in self.cfgs:
            self.cfgs[f.qualname] = build_cfg(f)
        return self.cfgs[f.qualname]

    # ------------------------------------------------------------------ origins
    def param_index(self, f, name):
        allp = f.params + f.kwonly
        if name in allp:
            return allp.index(name)
        if name == f.vararg:
            return len(allp)
        if name == f.kwarg:
            return len(allp) + 1
        return None

    def local_names(self, f):
        if f.qualname not in self._locals:
            names = set(f.params + f.kwonly + [x for x in (f.vararg, f.kwarg) if x])
            for n in ast.walk(f.node):
                if isinstance(n, ast.Name) and isinstance(n.ctx, (ast.Store, ast.Del)):
                    names.add(n.id)
                elif isinstance(n, ast.ExceptHandler) and n.name:
                    names.add(n.name)
                elif isinstance(n, (ast.Import, ast.ImportFrom)):
                    for a in n.names:
                        names.add((a.asname or a.name).split(".")[0])
            for n in ast.walk(f.node):
                if isinstance(n, ast.Global):
                    names -= set(n.names)
            self._locals[f.qualname] = names
        return self._locals[f.qualname]

    def name_origin(self, name, f, node):
        """origins of local `name` at the entry of CFG node `node` via reaching definitions."""
        key = (f.qualname, node.id if node is not None else -1, name)
        if key in self._name_cache:
            return self._name_cache[key]
        if key in self._name_busy:
            return set()
        self._name_busy.add(key)
        out = set()
        g = self.cfg(f)
        pi = self.param_index(f, name)
        defs = reaching_defs(g, node, name) if node is not None else set([g.entry])
        known_local = False
        for d in defs:
            if d.kind == "entry":
                if pi is not None:
                    out.add(("P%d" % pi, ""))
                continue
            known_local = True
            v = def_value(d, name)
            if v is not None:
                out |= self.origin(v, f, d)
            elif d.kind == "for":
                pos = self._unpacked_part(d.ast.target, name, d.ast.iter, f)
                if pos is not None:
                    out |= pos
                else:
                    out |= self._target_origin(d.ast.target, name, self.elem_origin(d.ast.iter, f, d))
            elif d.kind == "with":
                out.add(("FRESH", ""))
            elif d.kind == "handler":
                out.add(("FRESH", ""))
            elif d.kind == "stmt" and isinstance(d.ast, ast.AugAssign):
                out |= self.name_origin(name, f, d)
                out.add(("FRESH", ""))
            elif d.kind == "stmt" and isinstance(d.ast, (ast.Import, ast.ImportFrom, ast.FunctionDef, ast.ClassDef)):
                out.add(("GLOBAL", ""))
            elif d.kind == "stmt" and isinstance(d.ast, ast.Assign):
                # tuple unpacking: element of the value
                vo = self.origin(d.ast.value, f, d)
                if self._from_local_container(d.ast.value, f):
                    out |= set(o for o in vo if o[0] != "CONST")
                else:
                    out |= set((r, compose(t, "val")) if r not in ("FRESH", "CONST") else ("UNK", "") for (r, t) in vo)
            else:
                out.add(("UNK", ""))
        self._name_busy.discard(key)
        if not (self._name_busy):
            self._name_cache[key] = out
        self._known_local[key] = known_local or pi is not None
        return out

    def _from_local_container(self, v, f):
        """v reads an element out of a local container whose element origins are tracked."""
        el = self.elem.get(f.qualname, {})
        if isinstance(v, ast.Subscript) and isinstance(v.value, ast.Name) and v.value.id in el:
            return True
        if isinstance(v, ast.Call) and isinstance(v.func, ast.Attribute) and v.func.attr in ("pop", "get", "popleft") \
                and isinstance(v.func.value, ast.Name) and v.func.value.id in el:
            return True
        return False

    def _unpacked_part(self, target, name, it, f):
        """`for a, b in pairs` over a local list that was filled with pairs.append((x, y)): b has the origins of y (tracked by position)"""
        if isinstance(it, ast.Call) and isinstance(it.func, ast.Name) and it.func.id in ("list", "tuple", "iter", "reversed") and len(it.args) == 1:
            it = it.args[0]
        parts = self.__dict__.setdefault("elem_parts", {}).get(f.qualname, {})
        if not (isinstance(it, ast.Name) and it.id in parts and isinstance(target, (ast.Tuple, ast.List))):
            return None
        rows = parts[it.id]
        for i, el in enumerate(target.elts):
            if isinstance(el, ast.Name) and el.id == name:
                if rows.get("arity") == len(target.elts) and i in rows:
                    return set(rows[i])
        return None

    def _target_origin(self, target, name, eo):
        if isinstance(target, ast.Name):
            return set(eo)
        # (a, b) unpacking of elements
        return set((r, compose(t, "val")) if r not in ("FRESH", "CONST") else ("UNK", "") for (r, t) in eo)

    def origin(self, e, f, node=None, depth=0):
        """set of origins of expression e evaluated at CFG node `node` of function f."""
        if e is None or isinstance(e, (ast.Constant, ast.JoinedStr, ast.Compare, ast.Lambda)):
            return set([("CONST", "")])
        if isinstance(e, (ast.List, ast.Dict, ast.Set, ast.ListComp, ast.DictComp, ast.SetComp, ast.GeneratorExp, ast.Tuple)):
            return set([("FRESH", "")])
        if isinstance(e, ast.Name):
            out = self.name_origin(e.id, f, node)
            comp = self._comp_targets.get(f.qualname, {}).get(e.id)
            if comp is not None:
                out = out | self.elem_origin(comp, f, node)
            key = (f.qualname, node.id if node is not None else -1, e.id)
            if out:
                return out
            if e.id in self.local_names(f):
                return self._bottom()
            ks = self.k.name_kinds(e.id, f, None)
            if any(k.startswith(("class:", "func:", "module:", "builtin:", "ext:", "fmt:")) for k in ks):
                # classes/modules are global objects; mutation of their attributes is a global write
                return set([("GLOBAL", "")])
            mod = f.module
            if e.id in mod.assigns:
                return set([("GLOBAL", "")])
            return set([("UNK", "")])
        if isinstance(e, ast.Attribute):
            base = self.origin(e.value, f, node, depth + 1)
            out = set()
            for (r, t) in base:
                if r == "CONST":
                    out.add((r, t))
                elif e.attr in UP_ATTRS:
                    out.add((r, compose(t, "up")) if r != "FRESH" else ("UNK", ""))
                elif e.attr in REACH_ATTRS:
                    out.add((r, compose(t, "reach")) if r != "FRESH" else ("UNK", ""))
                elif e.attr in CHILD_LISTS:
                    out.add((r, t))
                else:
                    # a field value: belongs to the object; for plain data fields (lists of
                    # values, dicts of handlers) a mutation of it is a mutation of the owner
                    out.add((r, t))
            return out
        if isinstance(e, ast.Subscript):
            base = self.origin(e.value, f, node, depth + 1)
            out = set()
            is_childlist = isinstance(e.value, ast.Attribute) and e.value.attr in CHILD_LISTS
            kinds = self.k.ek(e.value, f, self.k.envs.get(f.qualname, {}))
            model = any(k in ("BaseSection", "BaseDocument") or k.startswith("SmartList") for k in kinds)
            if isinstance(e.value, ast.Name) and e.value.id in self.elem.get(f.qualname, {}):
                out |= self.elem[f.qualname][e.value.id]
            for (r, t) in base:
                if r in ("CONST",):
                    out.add((r, t))
                elif r == "FRESH":
                    if not (isinstance(e.value, ast.Name) and e.value.id in self.elem.get(f.qualname, {})):
                        out.add(("FRESH", ""))
                elif is_childlist or model:
                    out.add((r, compose(t, "child")))
                else:
                    out.add((r, compose(t, "val")))
            return out or self._bottom()
        if isinstance(e, (ast.BoolOp,)):
            out = set()
            for v in e.values:
                out |= self.origin(v, f, node, depth + 1)
            return out
        if isinstance(e, ast.IfExp):
            return self.origin(e.body, f, node, depth + 1) | self.origin(e.orelse, f, node, depth + 1)
        if isinstance(e, (ast.BinOp, ast.UnaryOp)):
            return set([("FRESH", "")])
        if isinstance(e, ast.Call):
            return self.call_origin(e, f, node, depth + 1)
        if isinstance(e, ast.Starred):
            return self.origin(e.value, f, node, depth + 1)
        return set([("UNK", "")])

    def _bottom(self):
        # inside a recursive name resolution an empty result means "cycle": the outermost
        # resolution unions the other reaching definitions
        return set([("UNK", "")]) if (self._final and not self._name_busy) else set()

    def elem_origin(self, it, f, node=None):
        """origins of the elements produced by iterating `it`."""
        out = set()
        is_local_container = isinstance(it, ast.Name) and it.id in self.elem.get(f.qualname, {})
        if is_local_container:
            out |= self.elem[f.qualname][it.id]
        if isinstance(it, ast.Call) and isinstance(it.func, ast.Name) and it.func.id in ("list", "sorted", "reversed", "tuple", "iter", "enumerate") and it.args:
            return self.elem_origin(it.args[0], f, node)
        if isinstance(it, (ast.GeneratorExp, ast.ListComp, ast.SetComp)):
            # elements of a comprehension: the origins of the element expression (the parts of a tuple element), with the
            # comprehension variables standing for the elements of their iterables (_comp_targets)
            parts = it.elt.elts if isinstance(it.elt, ast.Tuple) else [it.elt]
            for x in parts:
                out |= set(o for o in self.origin(x, f, node) if o[0] != "CONST")
            return out or set([("FRESH", "")])
        if isinstance(it, ast.Call):
            # generator methods of the model: itersections / iterproperties / itervalues
            gen = False
            for tgt in self.targets(it, f):
                if isinstance(tgt, FuncInfo) and tgt.is_generator:
                    gen = True
                    for (r, t) in self.map_origins(self.ret_origin.get(tgt.qualname + "#yield", set()), it, tgt, f, node=node):
                        out.add((r, t))
            if gen:
                return out or self._bottom()
        base = self.origin(it, f, node)
        for (r, t) in base:
            if r == "CONST":
                out.add((r, t))
            elif r == "FRESH":
                if not is_local_container:
                    out.add(("FRESH", ""))
            else:
                out.add((r, compose(t, "child")))
        return out or self._bottom()

    def call_origin(self, call, f, node=None, depth=0):
        fn = unparse(call.func)
        if fn in FRESH_CALLS or fn.split(".")[-1] in ("clone", "copy", "deepcopy", "export_leaf"):
            return set([("FRESH", "")])
        if fn == "getattr" and call.args:
            return set((r, compose(t, "val")) if r not in ("CONST", "FRESH") else ("UNK", "") for (r, t) in self.origin(call.args[0], f, node, depth))
        out = set()
        if self._from_local_container(call, f):
            return set(self.elem[f.qualname][call.func.value.id]) or self._bottom()
        tgts = self.targets(call, f)
        for tgt in tgts:
            if isinstance(tgt, FuncInfo):
                if tgt.name == "__init__":
                    out.add(("FRESH", ""))
                    continue
                ro = self.ret_origin.get(tgt.qualname, set())
                out |= self.map_origins(ro, call, tgt, f, node=node)
            elif isinstance(tgt, tuple):
                if tgt[0] == "ctor":
                    out.add(("FRESH", ""))
                elif tgt[0] in ("dictop", "listop") and tgt[1] in ("get", "pop", "setdefault", "__getitem__"):
                    if isinstance(call.func, ast.Attribute):
                        for (r, t) in self.origin(call.func.value, f, node, depth):
                            out.add((r, compose(t, "val")) if r not in ("CONST", "FRESH") else ("UNK", ""))
                elif tgt[0] in ("strop", "builtin", "generic", "fileop"):
                    out.add(("FRESH", ""))
                elif tgt[0] == "ext":
                    out.add(("FRESH", ""))
                else:
                    out.add(("UNK", ""))
        return out or self._bottom()

    def arg_exprs(self, call, tgt, f):
        """{param index of tgt: argument expression}; receiver -> index 0 for bound calls."""
        out = {}
        allp = tgt.params + tgt.kwonly
        offset = 0
        if tgt.has_self or tgt.name == "__init__":
            if isinstance(call.func, ast.Attribute) and not self.k._is_unbound_call(call, tgt, f, self.k.envs.get(f.qualname, {})) \
                    and tgt.name != "__init__":
                recv = call.func.value
                # super(C, self).m(...)  -> receiver is self
                if isinstance(recv, ast.Call) and isinstance(recv.func, ast.Name) and recv.func.id == "super":
                    recv = ast.Name(id=f.params[0], ctx=ast.Load()) if f.params else recv
                out[0] = recv
                offset = 1
            elif tgt.name == "__init__":
                offset = 1     # self is the fresh object
            elif tgt.kind == "classmethod":
                offset = 1
        npos = len(tgt.params)
        for i, a in enumerate(call.args):
            if isinstance(a, ast.Starred):
                break
            if i + offset < npos:
                out[i + offset] = a
            elif tgt.vararg:
                out.setdefault("varargs", []).append(a)
        for kwd in call.keywords:
            if kwd.arg is not None and kwd.arg in allp:
                out[allp.index(kwd.arg)] = kwd.value
        return out

    def map_origins(self, origins, call, tgt, f, args=None, node=None):
        """translate origins expressed in tgt's parameters into f's terms at this call."""
        args = args if args is not None else self.arg_exprs(call, tgt, f)
        out = set()
        for (r, t) in origins:
            if r.startswith("P"):
                i = int(r[1:])
                if i in args:
                    for (r2, t2) in self.origin(args[i], f, node):
                        if r2 in ("CONST",):
                            continue
                        if r2 == "FRESH":
                            # everything reachable from an object graph built in this activation
                            # (parsed document, clone) is part of that fresh graph
                            out.add(("FRESH", ""))
                        else:
                            out.add((r2, compose(t2, t)))
                elif i == 0 and tgt.name == "__init__":
                    out.add(("FRESH", ""))
                elif tgt.vararg and i == len(tgt.params + tgt.kwonly) and args.get("varargs"):
                    for a in args["varargs"]:
                        for (r2, t2) in self.origin(a, f, node):
                            if r2 == "CONST":
                                continue
                            # t is relative to the tuple of extra arguments: its elements are the arguments
                            t3 = "" if t in ("child", "val") else t
                            out.add((r2, compose(t2, t3)) if r2 != "FRESH" else ("FRESH", ""))
                else:
                    # defaulted parameter: its default object (None/constant) - nothing to write
                    out.add(("CONST", ""))
            else:
                out.add((r, t))
        return out

    # ------------------------------------------------------------------- targets
    def targets(self, call, f, conds=None):
        key = (id(call), f.qualname)
        if conds is None and key in self.call_targets:
            return self.call_targets[key]
        t = self.k.resolve_call(call, f, self.k.envs.get(f.qualname, {}), conds)
        if conds is None:
            self.call_targets[key] = t
        return t

    # --------------------------------------------------------------------- solve
    def _solve(self):
        funcs = self.p.all_functions()
        for f in funcs:
            self.W[f.qualname] = {}
            self.ret_origin[f.qualname] = set()
        # comprehension targets: name -> iterated expression (comprehension scopes are tiny; flow-insensitive)
        for f in funcs:
            ct = {}
            for n in ast.walk(f.node):
                if isinstance(n, ast.comprehension) and isinstance(n.target, ast.Name):
                    ct[n.target.id] = n.iter
            self._comp_targets[f.qualname] = ct
        total = 0
        # least fixpoint: an empty origin set means "no object reaches here (yet)"; genuinely
        # unknown sources (unresolved calls, unknown names) inject ('UNK','') explicitly
        for final in (False,):
            self._final = final
            for it in range(14):
                before = self._size()
                self._name_cache = {}
                self.unresolved = []
                self.n_calls = 0
                for f in funcs:
                    self._solve_func(f)
                total += 1
                if self._size() == before:
                    break
        self.iterations = total

    def _size(self):
        return (sum(len(w) for w in self.W.values()) + sum(len(r) for r in self.ret_origin.values())
                + sum(len(x) for e in self.elem.values() for x in e.values()))

    def _solve_func(self, f):
        elem = self.elem.setdefault(f.qualname, {})
        g = self.cfg(f)
        W = self.W[f.qualname]
        has_global = [n for n in walk_no_nested(f.node) if isinstance(n, ast.Global)]
        for node in g.nodes:
            if not g.reachable(node):
                continue
            for ev in node_events(node):
                k = ev["kind"]
                a = ev["ast"]
                if k == "store_name":
                    v = ev.get("value")
                    if v is not None and isinstance(a, ast.Name):
                        if isinstance(v, ast.ListComp):
                            elem.setdefault(a.id, set()).update(self.origin(v.elt, f, node))
                        if isinstance(v, ast.List):
                            for x in v.elts:
                                elem.setdefault(a.id, set()).update(self.origin(x, f, node))
                        if isinstance(v, (ast.List, ast.ListComp, ast.Dict, ast.Set)):
                            elem.setdefault(a.id, set())
                    if isinstance(a, ast.Name) and any(a.id in n.names for n in has_global):
                        self._add(W, Write("attr", a.id, "store", ("GLOBAL", ""), f.short, node.lineno, unparse(node.ast)[:80]))
                elif k == "iter":
                    self._dunder(a, "__iter__", [], f, node, W)
                elif k in ("store_attr", "aug_attr", "del_attr"):
                    self._attr_write(a, ev, f, node, W, k)
                elif k in ("store_sub", "aug_sub", "del_sub"):
                    self._sub_write(a, ev, f, node, W, k)
                elif k == "call":
                    self._call(a, f, node, W)
                elif k == "load_prop":
                    for gt in self.k.getter_targets(a, f):
                        self._map_callee(W, gt, {0: a.value}, f, node, a)
                elif k == "contains":
                    self._dunder(ev["container"], "__contains__", [ev["item"]], f, node, W)
                elif k == "eq":
                    self._dunder(ev["left"], "__eq__", [ev["right"]], f, node, W)
            if node.kind == "return" and node.ast.value is not None:
                self.ret_origin[f.qualname] |= self.origin(node.ast.value, f, node)
            for r in node.expr_roots():
                for n in ast.walk(r):
                    if isinstance(n, ast.Yield) and n.value is not None:
                        self.ret_origin.setdefault(f.qualname + "#yield", set()).update(self.origin(n.value, f, node))
                    elif isinstance(n, ast.YieldFrom):
                        self.ret_origin.setdefault(f.qualname + "#yield", set()).update(self.elem_origin(n.value, f, node))

    def _add(self, W, w):
        if w.origin[0] == "CONST":
            return
        k = w.key()
        if k not in W:
            W[k] = w

    def _field_name(self, e, f=None, node=None, depth=0):
        if isinstance(e, ast.Attribute):
            return e.attr
        if isinstance(e, ast.Name):
            # a local bound once to a field (`pending = self.loading`) names that field
            if f is not None and node is not None and depth < 4 and e.id not in f.params:
                try:
                    ds = reaching_defs(self.cfg(f), node, e.id)
                except Exception:
                    ds = ()
                if len(ds) == 1:
                    v = def_value(next(iter(ds)), e.id)
                    if isinstance(v, (ast.Attribute, ast.Name)):
                        return self._field_name(v, f, next(iter(ds)), depth + 1)
            return e.id
        if isinstance(e, ast.Subscript):
            return self._field_name(e.value, f, node, depth) + "[]"
        if isinstance(e, ast.Call):
            return unparse(e.func).split(".")[-1] + "()"
        return unparse(e)[:30]

    def _attr_write(self, target, ev, f, node, W, k):
        setters = self.k.setter_targets(target, f) if k != "del_attr" else []
        origins = self.origin(target.value, f, node)
        kinds = self.k.ek(target.value, f, self.k.envs.get(f.qualname, {}))
        plain = not setters or any(self.k.class_by_kind(x) is None or not self.k.class_by_kind(x).has_prop(target.attr)
                                   for x in kinds)
        for s in setters:
            args = {0: target.value}
            if ev.get("value") is not None:
                args[1] = ev["value"]
            self._map_callee(W, s, args, f, node, target)
        if plain or not setters:
            op = {"store_attr": "store", "aug_attr": "store", "del_attr": "delete"}[k]
            for o in origins:
                self._add(W, Write("attr", target.attr, op, o, f.short, node.lineno, unparse(node.ast).split("\n")[0][:80]))

    def _sub_write(self, target, ev, f, node, W, k):
        dunder = "__delitem__" if k == "del_sub" else "__setitem__"
        handled = self._dunder(target.value, dunder, [target.slice] + ([ev["value"]] if ev.get("value") is not None else []),
                               f, node, W)
        kinds = self.k.ek(target.value, f, self.k.envs.get(f.qualname, {}))
        builtin_possible = (not handled) or any(self.k.class_by_kind(x) is None or
                                                self.k.class_by_kind(x).lookup_method(dunder) is None for x in kinds)
        if builtin_possible:
            for o in self.origin(target.value, f, node):
                self._add(W, Write("list", self._field_name(target.value, f, node), dunder, o, f.short, node.lineno,
                                   unparse(node.ast).split("\n")[0][:80]))

    def _dunder(self, recv, name, args, f, node, W):
        """call of a special method on a repository class receiver; returns True if some target was a repo method"""
        hit = False
        for kd in self.k.ek(recv, f, self.k.envs.get(f.qualname, {})):
            cls = self.k.class_by_kind(kd)
            if cls is None:
                continue
            m = cls.lookup_method(name)
            if m is None:
                continue
            hit = True
            amap = {0: recv}
            for i, a in enumerate(args):
                amap[i + 1] = a
            self._map_callee(W, m, amap, f, node, recv)
        return hit

    def _map_callee(self, W, tgt, args, f, node, site_ast):
        for w in list(self.W.get(tgt.qualname, {}).values()):
            for o in self.map_origins(set([w.origin]), None, tgt, f, args=args, node=node):
                self._add(W, Write(w.kind, w.field, w.op, o, w.func, w.lineno, w.text, (f.short,) + tuple(w.via)[:5]))

    def _call(self, call, f, node, W):
        self.n_calls += 1
        tgts = self.targets(call, f)
        fn = unparse(call.func)
        for tgt in tgts:
            if isinstance(tgt, FuncInfo):
                args = self.arg_exprs(call, tgt, f)
                self._map_callee(W, tgt, args, f, node, call)
                if tgt.name == "__init__":
                    # the constructor may publish the new object into a parent passed as argument:
                    # covered by the callee's writes to its parameter origins
                    pass
            elif isinstance(tgt, tuple):
                kind = tgt[0]
                if kind in ("listop", "dictop", "setop", "unknown-mutation"):
                    m = tgt[1]
                    muts = {"listop": LIST_MUTATORS, "dictop": DICT_MUTATORS, "setop": SET_MUTATORS,
                            "unknown-mutation": LIST_MUTATORS | DICT_MUTATORS | SET_MUTATORS}[kind]
                    if m in muts and isinstance(call.func, ast.Attribute):
                        recv = call.func.value
                        if isinstance(recv, ast.Call) and isinstance(recv.func, ast.Name) and recv.func.id == "super":
                            recv = ast.Name(id=f.params[0], ctx=ast.Load())
                        for o in self.origin(recv, f, node):
                            self._add(W, Write("list", self._field_name(recv, f, node), m, o, f.short, node.lineno,
                                               unparse(node.ast).split("\n")[0][:80]))
                        # element tracking for local containers
                        if isinstance(recv, ast.Name) and m in ("append", "add", "insert") and call.args:
                            a = call.args[-1]
                            parts = a.elts if isinstance(a, ast.Tuple) else [a]
                            rows = self.__dict__.setdefault("elem_parts", {}).setdefault(f.qualname, {}).setdefault(recv.id, {})
                            if isinstance(a, ast.Tuple) and rows.get("arity", len(parts)) == len(parts):
                                rows["arity"] = len(parts)
                                for i0, x0 in enumerate(parts):
                                    rows.setdefault(i0, set()).update(o for o in self.origin(x0, f, node) if o[0] != "CONST")
                            else:
                                rows["arity"] = -1          # mixed shapes: no positional knowledge
                            for x in parts:
                                self.elem.setdefault(f.qualname, {}).setdefault(recv.id, set()).update(
                                    o for o in self.origin(x, f, node) if o[0] != "CONST")
                        if isinstance(recv, ast.Name) and m in ("extend", "update") and call.args:
                            self.elem.setdefault(f.qualname, {}).setdefault(recv.id, set()).update(
                                self.elem_origin(call.args[0], f, node))
                elif kind == "builtin" and tgt[1] == "open":
                    from .checks.rules_order import is_write_open
                    if is_write_open(call):
                        self._add(W, Write("fs", "open", "write", ("FS", unparse(call.args[0]) if call.args else "?"),
                                           f.short, node.lineno, unparse(call)[:80]))
                elif kind == "builtin" and tgt[1] == "setattr" and len(call.args) >= 2:
                    for o in self.origin(call.args[0], f, node):
                        self._add(W, Write("attr", unparse(call.args[1])[:20], "store", o, f.short, node.lineno, unparse(call)[:80]))
                elif kind == "ext":
                    name = tgt[1]
                    if name in FS_WRITE_CALLS:
                        i = FS_WRITE_CALLS[name]
                        path = unparse(call.args[i]) if (i is not None and len(call.args) > i) else name
                        self._add(W, Write("fs", name, "write", ("FS", path), f.short, node.lineno, unparse(call)[:80]))
                elif kind == "unresolved":
                    self.unresolved.append((f.short, fn))
        # threading.Thread(target=g, args=...) : g runs asynchronously with those arguments
        if fn.endswith("Thread"):
            for kwd in call.keywords:
                if kwd.arg == "target":
                    r = None
                    for kd in self.k.ek(kwd.value, f, self.k.envs.get(f.qualname, {})):
                        if kd.startswith("bound:"):
                            r = self.p.functions.get(kd[6:].split("@")[0])
                    if r is not None:
                        recv = kwd.value.value if isinstance(kwd.value, ast.Attribute) else None
                        self._map_callee(W, r, {0: recv} if recv is not None else {}, f, node, call)

    # ------------------------------------------------------------------ queries
    def event_writes(self, f, node, ev):
        """writes contributed by one evaluation event."""
        W = {}
        self._event_into(f, node, ev, W)
        return list(W.values())

    def node_writes(self, f, node):
        """visible and invisible writes contributed by one CFG node (own and through callees)."""
        key = (f.qualname, node.id)
        if key in self._nw_cache:
            return self._nw_cache[key]
        W = {}
        for ev in node_events(node):
            self._event_into(f, node, ev, W)
        self._nw_cache[key] = list(W.values())
        return self._nw_cache[key]

    def _event_into(self, f, node, ev, W):
        if True:
            k = ev["kind"]
            a = ev["ast"]
            if k in ("store_attr", "aug_attr", "del_attr"):
                self._attr_write(a, ev, f, node, W, k)
            elif k in ("store_sub", "aug_sub", "del_sub"):
                self._sub_write(a, ev, f, node, W, k)
            elif k == "call":
                self._call(a, f, node, W)
            elif k == "load_prop":
                for gt in self.k.getter_targets(a, f):
                    self._map_callee(W, gt, {0: a.value}, f, node, a)
            elif k == "contains":
                self._dunder(ev["container"], "__contains__", [ev["item"]], f, node, W)
            elif k == "eq":
                self._dunder(ev["left"], "__eq__", [ev["right"]], f, node, W)
            elif k == "iter":
                self._dunder(a, "__iter__", [], f, node, W)

    def writes(self, f):
        return list(self.W.get(f.qualname, {}).values())

    def visible_writes(self, f):
        return [w for w in self.writes(f) if w.visible()]
