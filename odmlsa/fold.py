"""Constant folding of literal tables (never executes repository code).

Folds dict/list/tuple/set displays, string % and + on constants, str.join on
constant lists, names bound once at module/class level, `_ns.X` (kept symbolic as
'NS:X') and the values read from odml/info.json by odml/info.py.
"""
import ast
import json

from .model import AnalysisError, ClassInfo, ModuleInfo, unparse


class Unfoldable(Exception):
    pass


class NS(str):
    """symbolic rdflib Namespace term: NS('hasId') prints as 'NS:hasId'."""
    def __repr__(self):
        return "NS:%s" % str(self)


class Folder(object):
    def __init__(self, program):
        self.p = program
        self._info = None

    # ---------------------------------------------------------------- info.json
    def info_json(self):
        if self._info is None:
            txt = self.p.sources.get("odml/info.json")
            if txt is None:
                raise AnalysisError("odml/info.json not found")
            self._info = json.loads(txt)
        return self._info

    # ------------------------------------------------------------------- public
    def module_const(self, modname, name, _depth=0):
        if modname not in self.p.modules:
            raise Unfoldable("%s.%s: module not in package" % (modname, name))
        mod = self.p.modules[modname]
        if modname == "odml.info" and name in self.info_json():
            # info.py: NAME = infodict["NAME"]
            vals = mod.assigns.get(name, [])
            if vals and isinstance(vals[-1], ast.Subscript) and unparse(vals[-1].value) == "infodict":
                return self.info_json()[name]
        if name in mod.assigns:
            vals = mod.assigns[name]
            return self.fold(vals[-1], mod, None, _depth + 1)
        if name in mod.imports:
            ent = mod.imports[name]
            if ent[0] == "from":
                return self.module_const(ent[1], ent[2], _depth + 1)
        raise Unfoldable("%s.%s is not a module level constant" % (modname, name))

    def class_attr(self, cls, name):
        node = cls.lookup_attr(name)
        if node is None:
            raise Unfoldable("%s has no class attribute %s" % (cls.qualname, name))
        owner = [c for c in cls.mro if isinstance(c, ClassInfo) and name in c.attrs][0]
        return self.fold(node, owner.module, owner)

    def _prop_table(self, cls, prop, _depth):
        """value of a read only property whose getter is `return self.<table>` / `return self.<table>.keys()` (Format.arguments_keys, ...)"""
        g = cls.lookup_prop(prop, "getter")
        body = [st for st in g.node.body if not (isinstance(st, ast.Expr) and isinstance(st.value, ast.Constant))] if g is not None else []
        if len(body) != 1 or not isinstance(body[0], ast.Return) or body[0].value is None or not g.params:
            raise Unfoldable("property %s.%s is not a plain table read" % (cls.name, prop))
        v = body[0].value
        keys = False
        if isinstance(v, ast.Call) and isinstance(v.func, ast.Attribute) and v.func.attr == "keys" and not v.args:
            v, keys = v.func.value, True
        elif isinstance(v, ast.Call) and isinstance(v.func, ast.Name) and v.func.id in ("list", "tuple", "sorted") and len(v.args) == 1:
            inner = v.args[0]
            if isinstance(inner, ast.Call) and isinstance(inner.func, ast.Attribute) and inner.func.attr == "keys" and not inner.args:
                inner = inner.func.value
            srt = v.func.id == "sorted"
            if isinstance(inner, ast.Attribute) and unparse(inner.value) == g.params[0]:
                t = self.class_attr(cls, inner.attr)
                return sorted(t) if srt else list(t)
        if isinstance(v, ast.Attribute) and unparse(v.value) == g.params[0]:
            t = self.class_attr(cls, v.attr)
            return list(t.keys()) if keys and isinstance(t, dict) else t
        raise Unfoldable("property %s.%s is not a plain table read" % (cls.name, prop))

    def fold(self, node, mod, cls=None, _depth=0, env=None):
        if _depth > 12:
            raise Unfoldable("too deep")
        f = lambda n: self.fold(n, mod, cls, _depth + 1, env)
        if isinstance(node, ast.Constant):
            return node.value
        if isinstance(node, ast.Dict):
            out = {}
            for k, v in zip(node.keys, node.values):
                if k is None:
                    out.update(f(v))
                else:
                    out[f(k)] = f(v)
            return out
        if isinstance(node, (ast.List,)):
            return [f(e) for e in node.elts]
        if isinstance(node, ast.Tuple):
            return tuple(f(e) for e in node.elts)
        if isinstance(node, ast.Set):
            return set(f(e) for e in node.elts)
        if isinstance(node, ast.Name):
            if env and node.id in env:
                return env[node.id]
            if cls is not None and cls.lookup_attr(node.id) is not None and node.id in cls.attrs:
                return self.fold(cls.attrs[node.id], mod, cls, _depth + 1, env)
            if node.id in ("True", "False", "None"):
                return {"True": True, "False": False, "None": None}[node.id]
            return self.module_const(mod.name, node.id, _depth + 1)
        if isinstance(node, ast.Attribute):
            base = node.value
            # _ns.hasId / Format._ns.X / odmlns.X  -> symbolic namespace term
            bt = unparse(base)
            if bt in ("_ns", "Format._ns", "ODML_NS", "odmlns") or bt.endswith("._ns"):
                return NS(node.attr)
            # any name bound to an rdflib Namespace(...) - class attribute, module constant, alias of one
            try:
                bv = self.fold(base, mod, cls, _depth + 1, env) if isinstance(base, (ast.Name, ast.Attribute)) else None
            except Unfoldable:
                bv = None
            if isinstance(bv, str) and bv.startswith("NSBASE:"):
                return NS(node.attr)
            if isinstance(base, ast.Name):
                r = self.p.resolve_expr_to_symbol(mod, base)
                if isinstance(r, ModuleInfo):
                    return self.module_const(r.name, node.attr, _depth + 1)
                if isinstance(r, tuple) and r and r[0] == "instance" and isinstance(r[1], ClassInfo):
                    r = r[1]         # format.py: `Document = Document()` - the instance reads the class level tables
                if isinstance(r, ClassInfo):
                    if r.lookup_attr(node.attr) is None and r.has_prop(node.attr):
                        return self._prop_table(r, node.attr, _depth)
                    return self.class_attr(r, node.attr)
            raise Unfoldable("attribute %s" % unparse(node))
        if isinstance(node, ast.BinOp):
            l, r = f(node.left), f(node.right)
            try:
                if isinstance(node.op, ast.Mod):
                    return l % r
                if isinstance(node.op, ast.Add):
                    return l + r
                if isinstance(node.op, ast.Mult):
                    return l * r
            except Exception as exc:
                raise Unfoldable(str(exc))
        if isinstance(node, (ast.DictComp, ast.ListComp, ast.SetComp, ast.GeneratorExp)):
            # a comprehension over tables that fold: evaluated with the targets bound in the environment
            rows = []

            def bind(tgt, val, e2):
                if isinstance(tgt, ast.Name):
                    e2[tgt.id] = val
                elif isinstance(tgt, (ast.Tuple, ast.List)) and isinstance(val, (tuple, list)) and len(val) == len(tgt.elts):
                    for t0, v0 in zip(tgt.elts, val):
                        bind(t0, v0, e2)
                else:
                    raise Unfoldable("comprehension target %s" % unparse(tgt))

            def run(gens, e2):
                if not gens:
                    rows.append(dict(e2))
                    return
                g0 = gens[0]
                it = self.fold(g0.iter, mod, cls, _depth + 1, e2)
                if isinstance(it, dict):
                    it = list(it)
                if not isinstance(it, (list, tuple, set)) or g0.is_async:
                    raise Unfoldable("comprehension over %s" % unparse(g0.iter)[:40])
                for v in (sorted(it, key=repr) if isinstance(it, set) else it):
                    e3 = dict(e2)
                    bind(g0.target, v, e3)
                    if all(self.fold(c, mod, cls, _depth + 1, e3) for c in g0.ifs):
                        run(gens[1:], e3)
            run(list(node.generators), dict(env or {}))
            if len(rows) > 400:
                raise Unfoldable("comprehension too large")
            if isinstance(node, ast.DictComp):
                return dict((self.fold(node.key, mod, cls, _depth + 1, r), self.fold(node.value, mod, cls, _depth + 1, r)) for r in rows)
            vals = [self.fold(node.elt, mod, cls, _depth + 1, r) for r in rows]
            return set(vals) if isinstance(node, ast.SetComp) else vals
        if isinstance(node, ast.Compare) and len(node.ops) == 1:
            l, r = f(node.left), f(node.comparators[0])
            op = node.ops[0]
            try:
                if isinstance(op, ast.In):
                    return l in r
                if isinstance(op, ast.NotIn):
                    return l not in r
                if isinstance(op, ast.Eq):
                    return l == r
                if isinstance(op, ast.NotEq):
                    return l != r
            except Exception as exc:
                raise Unfoldable(str(exc))
        if isinstance(node, ast.IfExp):
            return f(node.body) if f(node.test) else f(node.orelse)
        if isinstance(node, ast.UnaryOp) and isinstance(node.op, ast.Not):
            return not f(node.operand)
        if isinstance(node, ast.BoolOp):
            vals = [f(v) for v in node.values]
            out = vals[0]
            for v in vals[1:]:
                out = (out and v) if isinstance(node.op, ast.And) else (out or v)
            return out
        if isinstance(node, ast.JoinedStr):
            parts = []
            for v in node.values:
                if isinstance(v, ast.Constant):
                    parts.append(str(v.value))
                elif isinstance(v, ast.FormattedValue):
                    parts.append(str(f(v.value)))
            return "".join(parts)
        if isinstance(node, ast.Call):
            fn = unparse(node.func)
            if isinstance(node.func, ast.Attribute) and node.func.attr == "join" and len(node.args) == 1:
                sep = f(node.func.value)
                seq = f(node.args[0])
                return sep.join(seq)
            if isinstance(node.func, ast.Attribute) and node.func.attr == "format":
                base = f(node.func.value)
                if isinstance(base, str):
                    try:
                        return base.format(*[f(a) for a in node.args], **dict((k.arg, f(k.value)) for k in node.keywords if k.arg))
                    except Exception as exc:
                        raise Unfoldable(str(exc))
            if fn in ("int", "bool", "str") and len(node.args) == 1 and not node.keywords:
                v = f(node.args[0])
                if isinstance(v, (bool, int, str)) and not isinstance(v, NS):
                    try:
                        return {"int": int, "bool": bool, "str": str}[fn](v)
                    except Exception as exc:
                        raise Unfoldable(str(exc))
            if fn == "getattr" and len(node.args) == 2 and not node.keywords:
                nm = f(node.args[1])
                if isinstance(nm, str):
                    return self.fold(ast.Attribute(value=node.args[0], attr=nm, ctx=ast.Load()), mod, cls, _depth + 1, env)
            if fn == "zip" and len(node.args) >= 1 and not node.keywords:
                return list(zip(*[f(a) for a in node.args]))
            if fn.split(".")[-1] == "Namespace" and len(node.args) == 1:
                return "NSBASE:" + str(f(node.args[0]))
            if fn in ("copy.deepcopy", "copy.copy", "dict", "list", "tuple", "set") and len(node.args) == 1:
                v = f(node.args[0])
                return {"dict": dict, "list": list, "tuple": tuple, "set": set}.get(fn, lambda x: x)(v)
            if fn == "dict.fromkeys" and len(node.args) in (1, 2) and not node.keywords:
                keys = f(node.args[0])
                val = f(node.args[1]) if len(node.args) == 2 else None
                try:
                    return dict.fromkeys(keys, val)
                except Exception as exc:
                    raise Unfoldable(str(exc))
            if fn == "dict" and not node.args and node.keywords and all(k.arg for k in node.keywords):
                return dict((k.arg, f(k.value)) for k in node.keywords)
            if fn == "urljoin" and len(node.args) == 2:
                return str(f(node.args[0])) + str(f(node.args[1]))
            if fn in ("datetime.timedelta", "timedelta"):
                return "timedelta"
        raise Unfoldable("cannot fold %s" % unparse(node)[:80])

    def try_fold(self, node, mod, cls=None, default=None, env=None):
        try:
            return self.fold(node, mod, cls, env=env)
        except Unfoldable:
            return default


def format_tables(program):
    """{'Document'|'Section'|'Property': {'_name','_args','_map','_rdf_map','_rdf_type'}}"""
    fd = Folder(program)
    out = {}
    fmod = program.module_of("format")
    for cname in ("Document", "Section", "Property"):
        if cname not in fmod.classes:
            raise AnalysisError("format class %s vanished" % cname)
        cls = fmod.classes[cname]
        tab = {}
        for attr in ("_name", "_args", "_map", "_rdf_map", "_rdf_type"):
            try:
                tab[attr] = fd.class_attr(cls, attr)
            except Unfoldable as exc:
                raise AnalysisError("cannot fold format.%s.%s: %s" % (cname, attr, exc))
        # the module rebinds the class name to an instance
        r = program.resolve_symbol("odml.format", cname)
        tab["is_instance"] = isinstance(r, tuple) and r[0] == "instance"
        out[cname] = tab
    return out
