"""Private helpers are identified by their role, not by their spelling.

The rules name the functions they are about.  Public names cannot change without breaking the pinned tests, but
a maintainer may rename a private helper (`_handle_value` -> `_lift_value_attributes`) at any time, and nothing the
user relies on changes.  So before any analysis the front end restores the names the rules were written against:

  * `tables/private_roles.json` (generated from the confirmed tree by tools/gen_roles.py, reviewed, committed) lists
    every private function of the package with its owner (module or class), kind, number of parameters and the set of
    functions of the same owner that refer to it;
  * when a listed name is missing from its owner and a private function of that owner that is *not* listed has the
    same kind, the same number of parameters and the same referrers (referrers that were renamed themselves count as
    "some private function"), and its body is still made of the same public names and string constants (Jaccard
    similarity at least 0.3; with several candidates the clearly most similar one), the function is renamed back -
    its definition and every reference `<x>.<name>` / bare `<name>` inside the owner's module;
  * anything else (no candidate, several candidates, two missing names competing for one candidate) is left alone,
    and the rule that needs the name stops with exit 2 as before.

The renaming is an alpha conversion of private names inside one module: it cannot change what the program does.
Every applied renaming is printed into the evidence (`notes`).
"""
import ast
import json
import os
import re

TABLE = os.path.join(os.path.dirname(os.path.abspath(__file__)), "tables", "private_roles.json")


def is_private(name):
    return name.startswith("_") and not name.startswith("__")


def _kind(fn):
    for d in fn.decorator_list:
        t = ast.unparse(d)
        if t == "staticmethod":
            return "static"
        if t == "classmethod":
            return "classmethod"
        if t == "property" or t.endswith(".setter") or t.endswith(".getter"):
            return "property"
    return "function"


def _arity(fn):
    a = fn.args
    return len(a.posonlyargs) + len(a.args)


def _owners(tree):
    """[(owner name or '', [function defs])] for the module level and every top level class (also inside try/if)."""
    out = [("", [])]

    def scan(body, owner_funcs):
        for st in body:
            if isinstance(st, (ast.FunctionDef, ast.AsyncFunctionDef)):
                owner_funcs.append(st)
            elif isinstance(st, ast.ClassDef):
                funcs = []
                out.append((st.name, funcs))
                scan(st.body, funcs)
            elif isinstance(st, (ast.If, ast.Try)):
                for fld in ("body", "orelse", "finalbody"):
                    scan(getattr(st, fld, []) or [], owner_funcs)
                for h in getattr(st, "handlers", []):
                    scan(h.body, owner_funcs)
    scan(tree.body, out[0][1])
    return out


def _refs(fn):
    """private names the function refers to: attributes `<x>._n` (loads) and bare names `_n`"""
    out = set()
    for n in ast.walk(fn):
        if isinstance(n, ast.Attribute) and is_private(n.attr) and isinstance(n.ctx, ast.Load):
            out.add(n.attr)
        elif isinstance(n, ast.Name) and is_private(n.id) and isinstance(n.ctx, ast.Load):
            out.add(n.id)
    return out


def fingerprint(fn):
    """what the body is made of, independent of private and local names: public attribute names, called builtin / global
    names, string constants (doc string excluded)"""
    out = set()
    body = fn.body
    if body and isinstance(body[0], ast.Expr) and isinstance(body[0].value, ast.Constant) and isinstance(body[0].value.value, str):
        body = body[1:]
    params = set(a.arg for a in fn.args.args + fn.args.posonlyargs + fn.args.kwonlyargs)
    stored = set(n.id for st in body for n in ast.walk(st) if isinstance(n, ast.Name) and isinstance(n.ctx, ast.Store))
    for st in body:
        for n in ast.walk(st):
            if isinstance(n, ast.Attribute) and not is_private(n.attr):
                out.add("." + n.attr)
            elif isinstance(n, ast.Name) and isinstance(n.ctx, ast.Load) and not is_private(n.id) and n.id not in params and n.id not in stored:
                out.add(n.id)
            elif isinstance(n, ast.Constant) and isinstance(n.value, str):
                # the words of the text, so that "%s" / f-string / concatenation spellings of one message agree
                for w0 in re.findall(r"[A-Za-z_][A-Za-z_0-9]{2,}", n.value)[:12]:
                    out.add("'" + w0)
    return sorted(out)[:120]


def similarity(a, b):
    """Jaccard similarity with one pseudo element in common (bodies of one or two tokens should not score 0 for one token)"""
    a, b = set(a), set(b)
    return (len(a & b) + 1.0) / (len(a | b) + 1.0)


def profiles(tree):
    """{owner: {private function name: {'kind', 'arity', 'referrers': sorted names of the owner's functions that refer to it}}}
    For module level functions the referrers are all functions of the module (methods included, written Class.method)."""
    owners = _owners(tree)
    res = {}
    all_funcs = []
    for owner, funcs in owners:
        for fn in funcs:
            all_funcs.append((owner, fn))
    for owner, funcs in owners:
        tab = {}
        for fn in funcs:
            if not is_private(fn.name) or _kind(fn) == "property":
                continue
            if owner == "":
                users = sorted(set(("%s.%s" % (o, g.name)) if o else g.name for o, g in all_funcs if g is not fn and fn.name in _refs(g)))
            else:
                users = sorted(set(g.name for g in funcs if g is not fn and fn.name in _refs(g)))
            tab[fn.name] = {"kind": _kind(fn), "arity": _arity(fn), "referrers": users, "uses": fingerprint(fn),
                            "recursive": fn.name in _refs(fn)}
        if tab:
            res[owner] = tab
    return res


def load_table():
    try:
        with open(TABLE) as fobj:
            return json.load(fobj)
    except (IOError, OSError, ValueError):
        return {}


def _blur(names, known):
    """referrer names with every name the table does not know (a renamed or new private function) replaced by '?'"""
    out = []
    for n in names:
        base = n.split(".")[-1]
        out.append(n if (not is_private(base) or n in known or base in known) else "?")
    return sorted(out)


def _ref_names(names, known, have=None, depth=0):
    """referrer names reduced to what can be compared across a re-organisation: the plain function name; a private name the
    table does not know (a renamed or new private function) stands for whoever refers to it in turn (two levels), else '?'"""
    out = set()
    for n in names:
        base = n.split(".")[-1]
        if not is_private(base) or base in known:
            out.add(base)
            continue
        via = None
        if have is not None and depth < 2:
            for tab in have.values():
                if base in tab:
                    via = _ref_names(tab[base]["referrers"], known, have, depth + 1)
        out |= via if via else set(["?"])
    return out


def plan_renames(modname, tree, table=None):
    """[(owner in the table, owner now, current name, table name)] for module `modname`.
    A listed private function that is missing from its owner is matched with a private function of the same module that the
    table does not list: in the same owner (same kind and number of parameters), or - a method that never needed its
    instance moved out of the class, or the reverse - at module level / in a class with the parameter count adjusted for
    self / cls.  The match is scored by what the body is made of (0.6) and by who refers to it, directly (0.2) and through other unlisted
    private functions (0.2); a function that calls itself matches one
    that does (0.1); it is accepted when the score is at least 0.5 and clearly better (0.08) than that of the next candidate, and when no other missing name claims
    the same function."""
    table = load_table() if table is None else table
    want = table.get(modname)
    if not want:
        return []
    have = profiles(tree)
    listed = set(n for tab in want.values() for n in tab)
    present = set(n for tab in have.values() for n in tab)
    known_now = listed & present
    fresh = [(o, n) for o, tab in sorted(have.items()) for n in sorted(tab) if n not in listed]
    claims = {}
    for owner, wtab in sorted(want.items()):
        htab = have.get(owner, {})
        for m in sorted(wtab):
            if m in htab or m in present and owner != "" and m in have.get("", {}):
                continue
            if any(m in tab for tab in have.values()) and m in htab:
                continue
            w = wtab[m]
            # direct referrers (a private name unknown on the other side is '?') and referrers seen through such names
            w_direct = _ref_names(w["referrers"], known_now)
            w_trans = _ref_names(w["referrers"], known_now, want)
            scored = []
            for o, y in fresh:
                h = have[o][y]
                if o == owner:
                    ok = h["kind"] == w["kind"] and h["arity"] == w["arity"]
                elif o == "" and owner != "":
                    # moved out of the class
                    # a static method keeps its parameters; a method loses self / cls - or keeps it as an explicit parameter
                    ok = h["kind"] == "function" and (h["arity"] == w["arity"] if w["kind"] == "static"
                                                      else h["arity"] in (w["arity"] - 1, w["arity"]))
                elif owner == "" and o != "":
                    add = 0 if h["kind"] == "static" else 1
                    ok = h["arity"] == w["arity"] + add
                else:
                    ok = False
                if not ok:
                    continue
                score = 0.6 * similarity(h.get("uses", ()), w.get("uses", ())) \
                    + 0.2 * similarity(_ref_names(h["referrers"], known_now), w_direct) \
                    + 0.2 * similarity(_ref_names(h["referrers"], known_now, have), w_trans) \
                    + (0.1 if bool(h.get("recursive")) == bool(w.get("recursive")) else 0.0)
                scored.append((score, o, y))
            scored.sort(reverse=True)
            if scored and scored[0][0] >= 0.5 and (len(scored) == 1 or scored[0][0] - scored[1][0] >= 0.08):
                claims.setdefault((scored[0][1], scored[0][2]), []).append((owner, m))
    plan = []
    for (o, y), ms in sorted(claims.items()):
        if len(ms) == 1:
            plan.append((ms[0][0], o, y, ms[0][1]))
    return plan


class _Rename(ast.NodeTransformer):
    def __init__(self, mapping):
        self.mapping = mapping      # current name -> table name (module wide: private names are unique enough per module)

    def visit_FunctionDef(self, n):
        if n.name in self.mapping:
            n.name = self.mapping[n.name]
        return self.generic_visit(n)

    visit_AsyncFunctionDef = visit_FunctionDef

    def visit_Attribute(self, n):
        if n.attr in self.mapping:
            n.attr = self.mapping[n.attr]
        return self.generic_visit(n)

    def visit_Name(self, n):
        if n.id in self.mapping:
            n.id = self.mapping[n.id]
        return n


def restore_names(modname, tree, table=None):
    """apply plan_renames to the tree (in place); returns the list of (table owner, owner now, current name, restored name).
    A renaming is applied only when the restored name does not occur anywhere in the module yet."""
    plan = plan_renames(modname, tree, table)
    if not plan:
        return []
    used = set()
    for n in ast.walk(tree):
        if isinstance(n, ast.Attribute):
            used.add(n.attr)
        elif isinstance(n, ast.Name):
            used.add(n.id)
        elif isinstance(n, (ast.FunctionDef, ast.AsyncFunctionDef)):
            used.add(n.name)
    mapping = {}
    applied = []
    for owner, now, cur, old in plan:
        if old in used or cur in mapping:
            continue
        mapping[cur] = old
        applied.append((owner, now, cur, old))
    if mapping:
        _Rename(mapping).visit(tree)
    return applied
