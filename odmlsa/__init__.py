"""odmlsa - static analysis of python-odml against the properties in /verif/properties.jsonl.

The package never imports or executes `odml`; it parses the working tree under
/repo (or an in-memory source map) with the standard library `ast` module only.
"""
