"""Semantics preserving normalisation of the parsed program, applied before any analysis.

The analyses reason about attribute reads and writes. Two reflective idioms hide them without changing what happens:
  * getattr(x, "lit") / setattr(x, "lit", v) / with a literal name            -> x.lit / x.lit = v
  * for a in ("n1", "n2", ...): <body using a only as such a literal name>     -> the body once per literal
  * for a, b in ((x1, y1), (x2, y2), ...): <body>   (a literal table of names/constants)  -> the body once per row
The second is applied only when the loop iterates a literal tuple/list of string constants, has no else clause, and its
body contains no break/continue (return is fine) and does not assign the loop variable; the unrolled copies keep the
line numbers of the original statements.  Dynamic uses (getattr(obj, fmt.map(k))) are left alone.
"""
import ast
import copy


class _Subst(ast.NodeTransformer):
    def __init__(self, name, value):
        self.name, self.value = name, value

    def visit_Name(self, n):
        if n.id == self.name and isinstance(n.ctx, ast.Load):
            return ast.copy_location(ast.Constant(value=self.value), n)
        return n


def _simple(e):
    return isinstance(e, (ast.Constant, ast.Name)) or (isinstance(e, ast.Attribute) and _simple(e.value))


def _pairs_unrollable(st):
    """for a, b in ((x1, y1), (x2, y2), ...): a literal table of simple expressions"""
    if not (isinstance(st, ast.For) and isinstance(st.target, ast.Tuple) and not st.orelse
            and all(isinstance(t, ast.Name) for t in st.target.elts)):
        return False
    it = st.iter
    if not (isinstance(it, (ast.Tuple, ast.List)) and 1 <= len(it.elts) <= 6):
        return False
    if not all(isinstance(e, (ast.Tuple, ast.List)) and len(e.elts) == len(st.target.elts) and all(_simple(v) for v in e.elts) for e in it.elts):
        return False
    names = set(t.id for t in st.target.elts)
    for n in ast.walk(ast.Module(body=st.body, type_ignores=[])):
        if isinstance(n, (ast.Break, ast.Continue, ast.FunctionDef, ast.Lambda, ast.ClassDef)):
            return False
        if isinstance(n, ast.Name) and n.id in names and isinstance(n.ctx, (ast.Store, ast.Del)):
            return False
    return True


class _SubstExpr(ast.NodeTransformer):
    def __init__(self, mapping):
        self.mapping = mapping

    def visit_Name(self, n):
        if n.id in self.mapping and isinstance(n.ctx, ast.Load):
            return ast.copy_location(copy.deepcopy(self.mapping[n.id]), n)
        return n


def _loop_unrollable(st):
    if not (isinstance(st, ast.For) and isinstance(st.target, ast.Name) and not st.orelse):
        return False
    it = st.iter
    if not (isinstance(it, (ast.Tuple, ast.List)) and it.elts and all(isinstance(e, ast.Constant) and isinstance(e.value, str) for e in it.elts)):
        return False
    if len(it.elts) > 12:
        return False
    uses_reflect = False
    for n in ast.walk(ast.Module(body=st.body, type_ignores=[])):
        if isinstance(n, (ast.Break, ast.Continue)):
            return False
        if isinstance(n, ast.Name) and n.id == st.target.id and isinstance(n.ctx, (ast.Store, ast.Del)):
            return False
        if isinstance(n, (ast.FunctionDef, ast.Lambda, ast.ClassDef)):
            return False
        if isinstance(n, ast.Call) and isinstance(n.func, ast.Name) and n.func.id in ("getattr", "setattr", "hasattr") and len(n.args) >= 2 \
                and isinstance(n.args[1], ast.Name) and n.args[1].id == st.target.id:
            uses_reflect = True
    return uses_reflect


class Normaliser(ast.NodeTransformer):
    def _block(self, stmts):
        out = []
        for st in stmts:
            st = self.visit(st)
            if isinstance(st, list):
                out.extend(st)
            elif st is not None:
                out.append(st)
        return out

    def generic_visit(self, node):
        for field in ("body", "orelse", "finalbody"):
            blk = getattr(node, field, None)
            if isinstance(blk, list) and blk and isinstance(blk[0], ast.stmt):
                setattr(node, field, self._block(blk))
        for field, val in ast.iter_fields(node):
            if field in ("body", "orelse", "finalbody") and isinstance(val, list) and val and isinstance(val[0], ast.stmt):
                continue
            if isinstance(val, ast.AST):
                new = self.visit(val)
                setattr(node, field, new)
            elif isinstance(val, list):
                new_list = []
                for v in val:
                    if isinstance(v, ast.AST):
                        v = self.visit(v)
                        if isinstance(v, list):
                            new_list.extend(v)
                            continue
                    if v is not None:
                        new_list.append(v)
                setattr(node, field, new_list)
        return node

    def visit_For(self, st):
        if _pairs_unrollable(st):
            res = []
            for e in st.iter.elts:
                mapping = dict((t.id, v) for t, v in zip(st.target.elts, e.elts))
                for b in st.body:
                    c = self.visit(_SubstExpr(mapping).visit(copy.deepcopy(b)))
                    if isinstance(c, list):
                        res.extend(c)
                    else:
                        res.append(c)
            return res
        if _loop_unrollable(st):
            out = []
            for e in st.iter.elts:
                for b in st.body:
                    c = _Subst(st.target.id, e.value).visit(copy.deepcopy(b))
                    out.append(c)
            res = []
            for c in out:
                c = self.visit(c)
                if isinstance(c, list):
                    res.extend(c)
                else:
                    res.append(c)
            return res
        return self.generic_visit(st)

    def visit_Call(self, c):
        self.generic_visit(c)
        if isinstance(c.func, ast.Name) and c.func.id == "getattr" and len(c.args) == 2 and not c.keywords \
                and isinstance(c.args[1], ast.Constant) and isinstance(c.args[1].value, str) and c.args[1].value.isidentifier():
            return ast.copy_location(ast.Attribute(value=c.args[0], attr=c.args[1].value, ctx=ast.Load()), c)
        return c

    def visit_Expr(self, st):
        self.generic_visit(st)
        c = st.value
        if isinstance(c, ast.Call) and isinstance(c.func, ast.Name) and c.func.id == "setattr" and len(c.args) == 3 and not c.keywords \
                and isinstance(c.args[1], ast.Constant) and isinstance(c.args[1].value, str) and c.args[1].value.isidentifier():
            tgt = ast.copy_location(ast.Attribute(value=c.args[0], attr=c.args[1].value, ctx=ast.Store()), c)
            return ast.copy_location(ast.Assign(targets=[tgt], value=c.args[2], lineno=st.lineno), st)
        return st


def normalise(tree):
    tree = Normaliser().visit(tree)
    ast.fix_missing_locations(tree)
    return tree
