"""Semantics preserving normalisation of the parsed program, applied before any analysis.

The analyses reason about attribute reads and writes. Two reflective idioms hide them without changing what happens:
  * getattr(x, "lit") / setattr(x, "lit", v) / with a literal name            -> x.lit / x.lit = v
  * for a in ("n1", "n2", ...): <body using a only as such a literal name>     -> the body once per literal
  * for a, b in ((x1, y1), (x2, y2), ...): <body>   (a literal table of names/constants)  -> the body once per row
The second is applied only when the loop iterates a literal tuple/list of string constants, has no else clause, and its
body contains no break/continue (return is fine) and does not assign the loop variable; the unrolled copies keep the
line numbers of the original statements.  Dynamic uses (getattr(obj, fmt.map(k))) are left alone.

A third rewrite removes a layout difference of newer Python:
  * if (x := e) ...: / return (x := e) ... / y = (x := e) ...   with the assignment expression in the position that is
    evaluated first and unconditionally                      -> x = e; if x ...: / return x ... / y = x ...
  * while (x := e) ...: body      -> x = e; while x ...: body; x = e     (x = e also before every `continue` of that loop)
  * a, *b = s.split(sep)  /  a, *b = name                 -> a = <src>[0]; b = <src>[1:]   (str.split never returns an empty list;
    for a name the slice keeps the kind of the sequence, which only matters for tuples - restricted to split results)
Assignment expressions elsewhere (right operand of and/or, comprehensions) are left alone.
  * if A and (x := e) ...: body  (no else branch)          -> if A: x = e; if x ...: body
  * a, s, b = name.partition(sep) / rpartition(sep)   -> a = <call>[0]; s = <call>[1]; b = <call>[2]   (always a 3-tuple)
  * a, b = os.path.split(p) / os.path.splitext(p)  (p built from names and os.path calls)   -> a = <call>[0]; b = <call>[1]
  * match <name or attribute>: case <literal> | <literal>: ... case Cls(): ... case _: ...   -> the if / elif / else chain with == tests,
    `is` for None/True/False, isinstance for class patterns without sub-patterns (other patterns: the statement is left alone)
  * for x in itertools.chain.from_iterable(f(y) for y in Y): body   (no break, no else)   -> for y in Y: for x in f(y): body
  * getattr(x, 'lit', None)  -> (x.lit if hasattr(x, 'lit') else None)
  * a private module level constant (_NAME bound once to a literal, or to a tuple / list of literals and dotted names) read inside a
    function that has no local of that name   -> the literal
  * in a loop that is unrolled: a guard `if t: continue` at the top level of the body   -> `if not t: <rest of the body>`
  * return next((e for v in L if c), <constant>)   -> for v in L: if c: return e  /  return <constant>
    x = next((e for v in L if c), <constant>)        -> x = <constant>; for v in L: if c: x = e; break
    (v bound nowhere else in the function)
  * a function defined inside a function that reads no local of the enclosing function (only its own parameters, module level names
    and builtins) is moved to module level as _<outer>__<name>; every reference inside the outer function is renamed
  * collections.deque(xs) without maxlen -> list(xs); q.popleft() -> q.pop(0); q.appendleft(x) -> q.insert(0, x)   (a work list is read as a list)
  * operator.itemgetter(i, j) / operator.attrgetter('a')   -> lambda s: (s[i], s[j]) / lambda o: o.a   (same value for every call)
  * P = functools.partial(F, *a, **k) at module level (bound once) ... P(*b, **l)   -> F(*a, *b, **k, **l)  (l overrides k)
  * a, b = x, y  (names on the left, no left name read by a later right side)   -> a = x; b = y
  * a = b = v    (names only)                                                    -> a = v; b = a   (b = v for a plain name/constant v)
"""
import ast
import copy


class _Subst(ast.NodeTransformer):
    def __init__(self, name, value):
        self.name, self.value = name, value

    def visit_Name(self, n):
        if n.id == self.name and isinstance(n.ctx, ast.Load):
            return ast.copy_location(ast.Constant(value=self.value), n)
        return n


def _simple(e):
    return isinstance(e, (ast.Constant, ast.Name)) or (isinstance(e, ast.Attribute) and _simple(e.value))


def _literal_row(v):
    """a list / tuple of constants used as a cell of a literal table"""
    return isinstance(v, (ast.Tuple, ast.List)) and all(isinstance(e, ast.Constant) for e in v.elts)


def _pairs_unrollable(st):
    """for a, b in ((x1, y1), (x2, y2), ...): a literal table of simple expressions"""
    if not (isinstance(st, ast.For) and isinstance(st.target, ast.Tuple) and not st.orelse
            and all(isinstance(t, ast.Name) for t in st.target.elts)):
        return False
    it = st.iter
    if not (isinstance(it, (ast.Tuple, ast.List)) and 1 <= len(it.elts) <= 24):
        return False
    if not all(isinstance(e, (ast.Tuple, ast.List)) and len(e.elts) == len(st.target.elts) and all(_simple(v) or _literal_row(v) for v in e.elts) for e in it.elts):
        return False
    names = set(t.id for t in st.target.elts)
    for n in ast.walk(ast.Module(body=st.body, type_ignores=[])):
        if isinstance(n, (ast.Break, ast.Continue, ast.FunctionDef, ast.Lambda, ast.ClassDef)):
            return False
        if isinstance(n, ast.Name) and n.id in names and isinstance(n.ctx, (ast.Store, ast.Del)):
            return False
    return True


class _SubstExpr(ast.NodeTransformer):
    def __init__(self, mapping):
        self.mapping = mapping

    def visit_Name(self, n):
        if n.id in self.mapping and isinstance(n.ctx, ast.Load):
            return ast.copy_location(copy.deepcopy(self.mapping[n.id]), n)
        return n


def _pure_operand(e):
    if isinstance(e, (ast.Constant, ast.Name)):
        return True
    if isinstance(e, ast.Attribute):
        return _pure_operand(e.value)
    if isinstance(e, ast.BinOp) and isinstance(e.op, (ast.Add, ast.Mod)):
        return _pure_operand(e.left) and (_pure_operand(e.right) or (isinstance(e.right, ast.Tuple) and all(_pure_operand(x) for x in e.right.elts)))
    if isinstance(e, ast.JoinedStr):
        return all(isinstance(v, ast.Constant) or (isinstance(v, ast.FormattedValue) and _pure_operand(v.value) and v.format_spec is None) for v in e.values)
    return False


def _display_unrollable(st):
    """for x in (e1, e2, e3): <body>  with call free element expressions whose names the body does not re-bind: the display is evaluated before
    the loop, but evaluating each element just before its iteration gives the same values"""
    if not (isinstance(st, ast.For) and isinstance(st.target, ast.Name) and not st.orelse):
        return False
    it = st.iter
    if not (isinstance(it, (ast.Tuple, ast.List)) and 2 <= len(it.elts) <= 6 and all(_pure_operand(e) for e in it.elts)):
        return False
    if all(isinstance(e, ast.Constant) for e in it.elts):
        # literal string tables: reflective loops are handled by _loop_unrollable; a loop that uses its variable as the key of a table look-up
        # (`for fmt in ("XML", "JSON"): convert(found[fmt], fmt)`) is a dispatch over the rows and is unrolled as well; others are left alone
        keyed = any(isinstance(y, ast.Subscript) and isinstance(y.slice, ast.Name) and y.slice.id == st.target.id
                    for b in st.body for y in ast.walk(b))
        if not keyed or len(it.elts) > 4:
            return False
    used = set(y.id for e in it.elts for y in ast.walk(e) if isinstance(y, ast.Name))
    for n in ast.walk(ast.Module(body=st.body, type_ignores=[])):
        if isinstance(n, (ast.Break, ast.Continue, ast.FunctionDef, ast.Lambda, ast.ClassDef)):
            return False
        if isinstance(n, ast.Name) and isinstance(n.ctx, (ast.Store, ast.Del)) and (n.id in used or n.id == st.target.id):
            return False
    return True


def _loop_unrollable(st):
    if not (isinstance(st, ast.For) and isinstance(st.target, ast.Name) and not st.orelse):
        return False
    it = st.iter
    if not (isinstance(it, (ast.Tuple, ast.List)) and it.elts and all(isinstance(e, ast.Constant) and isinstance(e.value, str) for e in it.elts)):
        return False
    if len(it.elts) > 12:
        return False
    uses_reflect = False
    for n in ast.walk(ast.Module(body=st.body, type_ignores=[])):
        if isinstance(n, (ast.Break, ast.Continue)):
            return False
        if isinstance(n, ast.Name) and n.id == st.target.id and isinstance(n.ctx, (ast.Store, ast.Del)):
            return False
        if isinstance(n, (ast.FunctionDef, ast.Lambda, ast.ClassDef)):
            return False
        if isinstance(n, ast.Call) and isinstance(n.func, ast.Name) and n.func.id in ("getattr", "setattr", "hasattr") and len(n.args) >= 2 \
                and isinstance(n.args[1], ast.Name) and n.args[1].id == st.target.id:
            uses_reflect = True
    return uses_reflect


_LEADING_FIELD = {ast.Compare: "left", ast.UnaryOp: "operand", ast.BinOp: "left", ast.Attribute: "value", ast.Subscript: "value",
                  ast.IfExp: "test", ast.Call: "func", ast.Starred: "value"}


def _hoist_leading_walrus(e):
    """(expression with the leading assignment expression replaced by its target, that NamedExpr) or (e, None).
    Leading = the sub-expression evaluated first and unconditionally."""
    if isinstance(e, ast.NamedExpr):
        return ast.copy_location(ast.Name(id=e.target.id, ctx=ast.Load()), e), e
    field = _LEADING_FIELD.get(type(e))
    if field is not None:
        new, named = _hoist_leading_walrus(getattr(e, field))
        if named is not None:
            setattr(e, field, new)
        return e, named
    if isinstance(e, ast.BoolOp) and e.values:
        new, named = _hoist_leading_walrus(e.values[0])
        if named is not None:
            e.values[0] = new
        return e, named
    if isinstance(e, (ast.Tuple, ast.List)) and e.elts:
        new, named = _hoist_leading_walrus(e.elts[0])
        if named is not None:
            e.elts[0] = new
        return e, named
    return e, None


def _walrus_assign(named, at):
    a = ast.Assign(targets=[ast.Name(id=named.target.id, ctx=ast.Store())], value=named.value, lineno=at.lineno)
    return ast.copy_location(a, at)


class Normaliser(ast.NodeTransformer):
    def __init__(self, tree=None):
        # spellings of the os.path module and of its functions in this file
        self.path_mods = set(["os.path"])
        self.path_funcs = {}
        self.op_mods, self.op_funcs = set(), {}          # spellings of operator / operator.itemgetter|attrgetter
        self.ft_mods, self.ft_partial = set(), set()     # spellings of functools / functools.partial
        self.partials = {}                               # module level name -> the partial(...) call it is bound to (bound once)
        self.const_tables = {}                           # module level name -> literal tuple / list of constants it is bound to (once)
        self.sentinels = set()                           # module level names bound once to object(): `_NOTHING = object()`
        if tree is not None:
            bound = {}
            for st0 in getattr(tree, "body", []):
                for y in ast.walk(st0) if not isinstance(st0, (ast.FunctionDef, ast.ClassDef)) else ():
                    if isinstance(y, ast.Name) and isinstance(y.ctx, (ast.Store, ast.Del)):
                        bound[y.id] = bound.get(y.id, 0) + 1
            for st0 in getattr(tree, "body", []):
                if isinstance(st0, ast.Assign) and len(st0.targets) == 1 and isinstance(st0.targets[0], ast.Name) and bound.get(st0.targets[0].id) == 1 \
                        and isinstance(st0.value, ast.Call) and isinstance(st0.value.func, ast.Name) and st0.value.func.id == "object" and not st0.value.args:
                    self.sentinels.add(st0.targets[0].id)
        for n in ast.walk(tree) if tree is not None else ():
            if isinstance(n, ast.Import):
                for a in n.names:
                    if a.name == "operator":
                        self.op_mods.add(a.asname or "operator")
                    if a.name == "functools":
                        self.ft_mods.add(a.asname or "functools")
                    if a.name == "os.path" and a.asname:
                        self.path_mods.add(a.asname)
                    if a.name in ("posixpath", "ntpath"):
                        self.path_mods.add(a.asname or a.name)
            elif isinstance(n, ast.ImportFrom) and n.level == 0:
                for a in n.names:
                    if n.module == "os" and a.name == "path":
                        self.path_mods.add(a.asname or "path")
                    if n.module in ("os.path", "posixpath", "ntpath"):
                        self.path_funcs[a.asname or a.name] = a.name
                    if n.module == "operator" and a.name in ("itemgetter", "attrgetter", "methodcaller"):
                        self.op_funcs[a.asname or a.name] = a.name
                    if n.module == "functools" and a.name == "partial":
                        self.ft_partial.add(a.asname or a.name)
        if tree is not None:
            bound = {}
            for st in tree.body:
                for y in ast.walk(st) if not isinstance(st, (ast.FunctionDef, ast.AsyncFunctionDef, ast.ClassDef)) else ():
                    if isinstance(y, ast.Name) and isinstance(y.ctx, (ast.Store, ast.Del)):
                        bound[y.id] = bound.get(y.id, 0) + 1
            rebound_inside = set(y.id for y in ast.walk(tree) if isinstance(y, ast.Global) for y in [ast.Name(id=z, ctx=ast.Load()) for z in y.names])
            for st in tree.body:
                if isinstance(st, ast.Assign) and len(st.targets) == 1 and isinstance(st.targets[0], ast.Name) and isinstance(st.value, ast.Call) \
                        and self._is_partial(st.value.func) and st.value.args and isinstance(st.value.args[0], ast.Name) \
                        and bound.get(st.targets[0].id) == 1 and st.targets[0].id not in rebound_inside \
                        and not any(isinstance(a, ast.Starred) for a in st.value.args) and not any(k.arg is None for k in st.value.keywords):
                    self.partials[st.targets[0].id] = st.value
                if isinstance(st, ast.Assign) and len(st.targets) == 1 and isinstance(st.targets[0], ast.Name) \
                        and isinstance(st.value, (ast.Tuple, ast.List)) and st.value.elts and bound.get(st.targets[0].id) == 1 \
                        and st.targets[0].id not in rebound_inside \
                        and all(isinstance(e, ast.Constant) or (isinstance(e, (ast.Tuple, ast.List)) and all(_simple(v) for v in e.elts))
                                for e in st.value.elts):
                    self.const_tables[st.targets[0].id] = st.value

    def _is_partial(self, fn):
        if isinstance(fn, ast.Name):
            return fn.id in self.ft_partial
        return isinstance(fn, ast.Attribute) and fn.attr == "partial" and isinstance(fn.value, ast.Name) and fn.value.id in self.ft_mods

    def _getter_kind(self, fn):
        if isinstance(fn, ast.Name):
            return self.op_funcs.get(fn.id)
        if isinstance(fn, ast.Attribute) and fn.attr in ("itemgetter", "attrgetter", "methodcaller") and isinstance(fn.value, ast.Name) \
                and fn.value.id in self.op_mods:
            return fn.attr
        return None

    def _path_func(self, fn):
        """name of the os.path function the callee expression denotes, or None"""
        if isinstance(fn, ast.Name):
            return self.path_funcs.get(fn.id)
        if isinstance(fn, ast.Attribute) and ast.unparse(fn.value) in self.path_mods:
            return fn.attr
        return None

    def _pure_path_expr(self, e, depth=0):
        if _simple(e):
            return True
        if isinstance(e, ast.Call) and depth < 4 and not e.keywords and self._path_func(e.func) in \
                ("dirname", "basename", "join", "split", "splitext", "normpath", "abspath"):
            return all(self._pure_path_expr(a, depth + 1) for a in e.args)
        if isinstance(e, ast.Subscript) and isinstance(e.slice, ast.Constant):
            return self._pure_path_expr(e.value, depth + 1)
        return False

    def _is_path_pair_call(self, v):
        return isinstance(v, ast.Call) and self._path_func(v.func) in ("split", "splitext") and len(v.args) == 1 and not v.keywords \
            and self._pure_path_expr(v.args[0])

    def _hoisted(self, st, field):
        """statement list: leading assignment expressions of st.<field> turned into assignments before st"""
        pre = []
        for _ in range(4):
            e = getattr(st, field, None)
            if e is None:
                break
            new, named = _hoist_leading_walrus(e)
            if named is None:
                break
            setattr(st, field, new)
            pre.append(_walrus_assign(named, st))
        return pre

    def visit_If(self, st):
        # if A and (x := e) ...: body   (no else)   ->   if A: x = e; if x ...: body
        t = st.test
        if not st.orelse and isinstance(t, ast.BoolOp) and isinstance(t.op, ast.And):
            for i, v in enumerate(t.values):
                if i == 0:
                    continue
                probe, named = _hoist_leading_walrus(copy.deepcopy(v))
                if named is None:
                    continue
                if any(isinstance(y, ast.NamedExpr) for w in t.values[:i] for y in ast.walk(w)) and i > 1:
                    break
                outer_test = t.values[0] if i == 1 else ast.copy_location(ast.BoolOp(op=ast.And(), values=t.values[:i]), t)
                rest = t.values[i:]
                inner_test = rest[0] if len(rest) == 1 else ast.copy_location(ast.BoolOp(op=ast.And(), values=rest), t)
                inner = ast.copy_location(ast.If(test=inner_test, body=st.body, orelse=[]), st)
                outer = ast.copy_location(ast.If(test=outer_test, body=[inner], orelse=[]), st)
                return self.visit(outer)
        pre = self._hoisted(st, "test")
        st = self.generic_visit(st)
        if not pre:
            return st
        return [self.visit(a) for a in pre] + [st]

    def visit_Match(self, st):
        subj = st.subject
        pre = []
        if not _simple(subj):
            # the subject is evaluated once: bind it to a fresh local first
            tmp = "_match_subject_%d" % getattr(st, "lineno", 0)
            pre = [ast.copy_location(ast.Assign(targets=[ast.Name(id=tmp, ctx=ast.Store())], value=subj, lineno=st.lineno), st)]
            subj = ast.copy_location(ast.Name(id=tmp, ctx=ast.Load()), st.subject)

        def test_of(pat):
            if isinstance(pat, ast.MatchValue):
                return ast.Compare(left=copy.deepcopy(subj), ops=[ast.Eq()], comparators=[pat.value])
            if isinstance(pat, ast.MatchSingleton):
                return ast.Compare(left=copy.deepcopy(subj), ops=[ast.Is()], comparators=[ast.Constant(value=pat.value)])
            if isinstance(pat, ast.MatchOr):
                parts = [test_of(p0) for p0 in pat.patterns]
                return None if any(p0 is None for p0 in parts) else ast.BoolOp(op=ast.Or(), values=parts)
            if isinstance(pat, ast.MatchClass) and not pat.patterns and not pat.kwd_patterns:
                return ast.Call(func=ast.Name(id="isinstance", ctx=ast.Load()), args=[copy.deepcopy(subj), pat.cls], keywords=[])
            if isinstance(pat, ast.MatchAs) and pat.pattern is None and pat.name is None:
                return True
            return None
        chain = []
        for case in st.cases:
            t = test_of(case.pattern)
            if t is None:
                return self.generic_visit(st)
            if case.guard is not None:
                t = case.guard if t is True else ast.BoolOp(op=ast.And(), values=[t, case.guard])
            chain.append((t, case.body))
        top = None
        cur = None
        for t, body in chain:
            if t is True:
                if cur is None:
                    return self._block(body)
                cur.orelse = body
                cur = None
                break
            node = ast.copy_location(ast.If(test=t, body=body, orelse=[]), st)
            if top is None:
                top = node
            else:
                cur.orelse = [node]
            cur = node
        if top is None:
            return self.generic_visit(st)
        ast.fix_missing_locations(top)
        r = self.visit(top)
        r = r if isinstance(r, list) else [r]
        return [self.visit(p0) for p0 in pre] + r

    def visit_While(self, st):
        new, named = _hoist_leading_walrus(st.test)
        if named is None or st.orelse:
            return self.generic_visit(st)
        st.test = new

        def add_before_continue(stmts):
            out = []
            for b in stmts:
                if isinstance(b, ast.Continue):
                    out.append(_walrus_assign(copy.deepcopy(named), b))
                elif isinstance(b, (ast.If, ast.With, ast.Try)):
                    for fld in ("body", "orelse", "finalbody"):
                        if getattr(b, fld, None):
                            setattr(b, fld, add_before_continue(getattr(b, fld)))
                    for h in getattr(b, "handlers", []):
                        h.body = add_before_continue(h.body)
                out.append(b)
            return out
        st.body = add_before_continue(st.body) + [_walrus_assign(copy.deepcopy(named), st.body[-1])]
        st = self.generic_visit(st)
        return [self.visit(_walrus_assign(named, st)), st]

    def visit_Return(self, st):
        fm = self._first_match(st.value) if st.value is not None else None
        if fm is not None:
            var, it, cond, elt, default = fm
            ret = ast.copy_location(ast.Return(value=elt), st)
            body = [ast.copy_location(ast.If(test=cond, body=[ret], orelse=[]), st)] if cond is not None else [ret]
            loop = ast.copy_location(ast.For(target=ast.Name(id=var, ctx=ast.Store()), iter=it, body=body, orelse=[]), st)
            tail = ast.copy_location(ast.Return(value=default), st)
            ast.fix_missing_locations(loop)
            ast.fix_missing_locations(tail)
            r = self.visit(loop)
            return (r if isinstance(r, list) else [r]) + [self.visit(tail)]
        pre = self._hoisted(st, "value")
        st = self.generic_visit(st)
        return ([self.visit(a) for a in pre] + [st]) if pre else st

    def visit_Assign(self, st):
        t = st.targets[0] if len(st.targets) == 1 else None
        v = st.value
        fm = self._first_match(v) if isinstance(t, ast.Name) else None
        if fm is not None and fm[0] != t.id:
            var, it, cond, elt, default = fm
            init = ast.copy_location(ast.Assign(targets=[ast.Name(id=t.id, ctx=ast.Store())], value=default, lineno=st.lineno), st)
            hit = [ast.copy_location(ast.Assign(targets=[ast.Name(id=t.id, ctx=ast.Store())], value=elt, lineno=st.lineno), st),
                   ast.copy_location(ast.Break(), st)]
            body = [ast.copy_location(ast.If(test=cond, body=hit, orelse=[]), st)] if cond is not None else hit
            loop = ast.copy_location(ast.For(target=ast.Name(id=var, ctx=ast.Store()), iter=it, body=body, orelse=[]), st)
            ast.fix_missing_locations(init)
            ast.fix_missing_locations(loop)
            r = self.visit(loop)
            return [init] + (r if isinstance(r, list) else [r])
        if isinstance(t, ast.Tuple) and len(t.elts) == 2 and isinstance(t.elts[0], ast.Name) and isinstance(t.elts[1], ast.Starred) \
                and isinstance(t.elts[1].value, ast.Name) and isinstance(v, ast.Call) and isinstance(v.func, ast.Attribute) \
                and v.func.attr == "split" and len(v.args) == 1 and isinstance(v.args[0], ast.Constant) and not v.keywords \
                and isinstance(v.func.value, ast.Name) and v.func.value.id not in (t.elts[0].id, t.elts[1].value.id):
            first = ast.Assign(targets=[ast.Name(id=t.elts[0].id, ctx=ast.Store())],
                               value=ast.Subscript(value=copy.deepcopy(v), slice=ast.Constant(value=0), ctx=ast.Load()), lineno=st.lineno)
            rest = ast.Assign(targets=[ast.Name(id=t.elts[1].value.id, ctx=ast.Store())],
                              value=ast.Subscript(value=copy.deepcopy(v), slice=ast.Slice(lower=ast.Constant(value=1)), ctx=ast.Load()),
                              lineno=st.lineno)
            return [ast.copy_location(first, st), ast.copy_location(rest, st)]
        if isinstance(t, (ast.Tuple, ast.List)) and len(t.elts) == 3 and all(isinstance(e, ast.Name) for e in t.elts) \
                and len(set(e.id for e in t.elts)) == 3 and isinstance(v, ast.Call) and isinstance(v.func, ast.Attribute) \
                and v.func.attr in ("partition", "rpartition") and len(v.args) == 1 and isinstance(v.args[0], ast.Constant) and not v.keywords \
                and isinstance(v.func.value, ast.Name) and v.func.value.id not in [e.id for e in t.elts]:
            out = []
            for i, e in enumerate(t.elts):
                sub = ast.Subscript(value=copy.deepcopy(v), slice=ast.Constant(value=i), ctx=ast.Load())
                out.append(ast.copy_location(ast.Assign(targets=[ast.Name(id=e.id, ctx=ast.Store())], value=sub, lineno=st.lineno), st))
            return out
        if isinstance(t, (ast.Tuple, ast.List)) and len(t.elts) == 2 and all(isinstance(e, ast.Name) for e in t.elts) \
                and t.elts[0].id != t.elts[1].id and self._is_path_pair_call(v) \
                and not any(isinstance(y, ast.Name) and y.id in (t.elts[0].id, t.elts[1].id) for y in ast.walk(v)):
            out = []
            for i, e in enumerate(t.elts):
                sub = ast.Subscript(value=copy.deepcopy(v), slice=ast.Constant(value=i), ctx=ast.Load())
                out.append(ast.copy_location(ast.Assign(targets=[ast.Name(id=e.id, ctx=ast.Store())], value=sub, lineno=st.lineno), st))
            return out
        if isinstance(t, (ast.Tuple, ast.List)) and isinstance(v, (ast.Tuple, ast.List)) and len(t.elts) == len(v.elts) >= 2 \
                and all(isinstance(e, ast.Name) for e in t.elts) and not any(isinstance(e, ast.Starred) for e in v.elts):
            names = [e.id for e in t.elts]
            clash = any(isinstance(y, ast.Name) and y.id in names[:j] for j, ve in enumerate(v.elts) for y in ast.walk(ve))
            if not clash and len(set(names)) == len(names):
                out = []
                for e, ve in zip(t.elts, v.elts):
                    a = ast.copy_location(ast.Assign(targets=[ast.Name(id=e.id, ctx=ast.Store())], value=ve, lineno=st.lineno), st)
                    r = self.visit(a)
                    out.extend(r if isinstance(r, list) else [r])
                return out
        if len(st.targets) >= 2 and all(isinstance(x, ast.Name) for x in st.targets) and len(set(x.id for x in st.targets)) == len(st.targets):
            first = st.targets[0].id
            out = []
            r = self.visit(ast.copy_location(ast.Assign(targets=[ast.Name(id=first, ctx=ast.Store())], value=v, lineno=st.lineno), st))
            out.extend(r if isinstance(r, list) else [r])
            for x in st.targets[1:]:
                again = _simple(v) and not any(isinstance(y, ast.Name) and y.id in [z.id for z in st.targets] for y in ast.walk(v))
                out.append(ast.copy_location(ast.Assign(targets=[ast.Name(id=x.id, ctx=ast.Store())],
                                                        value=copy.deepcopy(v) if again else ast.Name(id=first, ctx=ast.Load()),
                                                        lineno=st.lineno), st))
            return out
        # `x = o.a = o[k] = v`: the value is computed once and assigned left to right; with a plain name in front this is `x = v; o.a = x; o[k] = x`
        # (as long as the later targets do not read or bind x and no target is a starred / tuple pattern)
        if len(st.targets) >= 2 and isinstance(st.targets[0], ast.Name) and all(isinstance(x, (ast.Name, ast.Attribute, ast.Subscript)) for x in st.targets[1:]):
            first = st.targets[0].id
            later_names = [y.id for x in st.targets[1:] for y in ast.walk(x) if isinstance(y, ast.Name)]
            if first not in later_names:
                out = []
                r = self.visit(ast.copy_location(ast.Assign(targets=[ast.Name(id=first, ctx=ast.Store())], value=v, lineno=st.lineno), st))
                out.extend(r if isinstance(r, list) else [r])
                for x in st.targets[1:]:
                    r = self.visit(ast.copy_location(ast.Assign(targets=[x], value=ast.Name(id=first, ctx=ast.Load()), lineno=st.lineno), st))
                    out.extend(r if isinstance(r, list) else [r])
                return out
        pre = self._hoisted(st, "value") if all(isinstance(t, ast.Name) for t in st.targets) else []
        st = self.generic_visit(st)
        return ([self.visit(a) for a in pre] + [st]) if pre else st

    def _block(self, stmts):
        out = []
        for st in stmts:
            st = self.visit(st)
            if isinstance(st, list):
                out.extend(st)
            elif st is not None:
                out.append(st)
        return out

    def generic_visit(self, node):
        for field in ("body", "orelse", "finalbody"):
            blk = getattr(node, field, None)
            if isinstance(blk, list) and blk and isinstance(blk[0], ast.stmt):
                setattr(node, field, self._block(blk))
        for field, val in ast.iter_fields(node):
            if field in ("body", "orelse", "finalbody") and isinstance(val, list) and val and isinstance(val[0], ast.stmt):
                continue
            if isinstance(val, ast.AST):
                new = self.visit(val)
                setattr(node, field, new)
            elif isinstance(val, list):
                new_list = []
                for v in val:
                    if isinstance(v, ast.AST):
                        v = self.visit(v)
                        if isinstance(v, list):
                            new_list.extend(v)
                            continue
                        if v is None:
                            continue
                    # entries that are not nodes keep their position: the None key of a ** splice in a dict display, the None
                    # default of a keyword-only parameter
                    new_list.append(v)
                setattr(node, field, new_list)
        return node

    def _is_chain_from_iterable(self, fn):
        t = ast.unparse(fn)
        return t in ("chain.from_iterable", "itertools.chain.from_iterable")

    @staticmethod
    def _without_guard_continue(body):
        """body with every top level `if t: continue` turned into `if not t: <rest>`; None when a continue remains elsewhere"""
        out = []
        for i, b in enumerate(body):
            if isinstance(b, ast.If) and not b.orelse and len(b.body) == 1 and isinstance(b.body[0], ast.Continue):
                rest = Normaliser._without_guard_continue(body[i + 1:])
                if rest is None:
                    return None
                if rest:
                    neg = ast.copy_location(ast.UnaryOp(op=ast.Not(), operand=b.test), b.test)
                    out.append(ast.copy_location(ast.If(test=neg, body=rest, orelse=[]), b))
                return out
            if any(isinstance(y, ast.Continue) for y in ast.walk(b)) and not isinstance(b, (ast.For, ast.While)):
                return None
            out.append(b)
        return out

    def visit_For(self, st):
        # `for x in (A if c else ()): B`  is  `if c: for x in A: B`;  `for x in getattr(o, "a", ()): B`  is  `if hasattr(o, "a"): for x in o.a: B`
        it = st.iter
        if not st.orelse and isinstance(it, ast.IfExp) and isinstance(it.orelse, (ast.Tuple, ast.List)) and not it.orelse.elts:
            inner = ast.copy_location(ast.For(target=st.target, iter=it.body, body=st.body, orelse=[]), st)
            return self.visit(ast.copy_location(ast.If(test=it.test, body=[inner], orelse=[]), st))
        if not st.orelse and isinstance(it, ast.Call) and isinstance(it.func, ast.Name) and it.func.id == "getattr" and len(it.args) == 3 \
                and not it.keywords and isinstance(it.args[1], ast.Constant) and isinstance(it.args[1].value, str) and it.args[1].value.isidentifier() \
                and isinstance(it.args[2], (ast.Tuple, ast.List)) and not it.args[2].elts and _simple(it.args[0]):
            has = ast.Call(func=ast.Name(id="hasattr", ctx=ast.Load()), args=[copy.deepcopy(it.args[0]), it.args[1]], keywords=[])
            attr = ast.Attribute(value=it.args[0], attr=it.args[1].value, ctx=ast.Load())
            inner = ast.copy_location(ast.For(target=st.target, iter=attr, body=st.body, orelse=[]), st)
            new = ast.copy_location(ast.If(test=has, body=[inner], orelse=[]), st)
            ast.fix_missing_locations(new)
            return self.visit(new)
        # a literal table loop whose body only uses `continue` as a top level guard can be unrolled as well
        it0 = self.const_tables.get(st.iter.id) if isinstance(st.iter, ast.Name) else st.iter
        if isinstance(it0, (ast.Tuple, ast.List)) and not st.orelse and any(isinstance(y, ast.Continue) for b in st.body for y in ast.walk(b)):
            nb = self._without_guard_continue(st.body)
            if nb:
                probe = copy.copy(st)
                probe.iter = copy.deepcopy(it0)
                probe.body = nb
                if _pairs_unrollable(probe) or _loop_unrollable(probe):
                    st.body = nb
        # a loop over a module level table of literals (bound once, never re-bound) is the loop over that literal
        if isinstance(st.iter, ast.Name) and st.iter.id in self.const_tables and isinstance(self.const_tables[st.iter.id], (ast.Tuple, ast.List)):
            lit = copy.deepcopy(self.const_tables[st.iter.id])
            probe = copy.copy(st)
            probe.iter = lit
            if _pairs_unrollable(probe) or _loop_unrollable(probe):
                st.iter = ast.copy_location(lit, st.iter)
        it = st.iter
        if isinstance(it, ast.Call) and self._is_chain_from_iterable(it.func) and len(it.args) == 1 and not it.keywords and not st.orelse \
                and isinstance(it.args[0], (ast.GeneratorExp, ast.ListComp)) and len(it.args[0].generators) == 1 \
                and not it.args[0].generators[0].ifs and not it.args[0].generators[0].is_async \
                and not any(isinstance(y, ast.Break) for b in st.body for y in ast.walk(b)):
            gen = it.args[0].generators[0]
            inner = ast.copy_location(ast.For(target=st.target, iter=it.args[0].elt, body=st.body, orelse=[]), st)
            outer = ast.copy_location(ast.For(target=gen.target, iter=gen.iter, body=[inner], orelse=[]), st)
            return self.visit(outer)
        chain = self._search_chain(st)
        if chain is not None:
            return self.visit(chain)
        if _pairs_unrollable(st):
            res = []
            for e in st.iter.elts:
                mapping = dict((t.id, v) for t, v in zip(st.target.elts, e.elts))
                for b in st.body:
                    c = self.visit(_SubstExpr(mapping).visit(copy.deepcopy(b)))
                    if isinstance(c, list):
                        res.extend(c)
                    else:
                        res.append(c)
            return res
        if _display_unrollable(st):
            res = []
            for e in st.iter.elts:
                for b in st.body:
                    c = self.visit(_SubstExpr({st.target.id: e}).visit(copy.deepcopy(b)))
                    res.extend(c if isinstance(c, list) else [c])
            return res
        if _loop_unrollable(st):
            out = []
            for e in st.iter.elts:
                for b in st.body:
                    c = _Subst(st.target.id, e.value).visit(copy.deepcopy(b))
                    out.append(c)
            res = []
            for c in out:
                c = self.visit(c)
                if isinstance(c, list):
                    res.extend(c)
                else:
                    res.append(c)
            return res
        return self.generic_visit(st)

    def _search_chain(self, st):
        """for a, b in ((k1, f1), (k2, f2)): if C(a, b): A(a, b); break  else: E    is    if C(k1, f1): A(k1, f1) elif C(k2, f2): A(k2, f2) else: E"""
        if not (isinstance(st, ast.For) and st.orelse and isinstance(st.target, ast.Tuple) and all(isinstance(t, ast.Name) for t in st.target.elts)):
            return None
        it = st.iter
        if not (isinstance(it, (ast.Tuple, ast.List)) and 1 <= len(it.elts) <= 8
                and all(isinstance(e, (ast.Tuple, ast.List)) and len(e.elts) == len(st.target.elts) and all(_simple(v) for v in e.elts) for e in it.elts)):
            return None
        if not (len(st.body) == 1 and isinstance(st.body[0], ast.If) and not st.body[0].orelse and st.body[0].body
                and isinstance(st.body[0].body[-1], ast.Break)):
            return None
        inner = st.body[0]
        acts = inner.body[:-1]
        if any(isinstance(y, (ast.Break, ast.Continue)) for b in acts for y in ast.walk(b)) or any(isinstance(y, ast.Call) for y in ast.walk(inner.test)):
            return None
        names = set(t.id for t in st.target.elts)
        if any(isinstance(y, ast.Name) and y.id in names and isinstance(y.ctx, (ast.Store, ast.Del)) for b in acts for y in ast.walk(b)):
            return None
        tail = list(st.orelse)
        for e in reversed(it.elts):
            mapping = dict((t.id, v) for t, v in zip(st.target.elts, e.elts))
            test = _SubstExpr(mapping).visit(copy.deepcopy(inner.test))
            body = [_SubstExpr(mapping).visit(copy.deepcopy(b)) for b in acts] or [ast.copy_location(ast.Pass(), st)]
            tail = [ast.copy_location(ast.If(test=test, body=body, orelse=tail), st)]
        ast.fix_missing_locations(tail[0])
        return tail[0]

    def visit_FunctionDef(self, fn):
        # names bound inside the function hide module level partials; a local bound once to partial(F, ...) is one itself
        stores = {}
        for y in ast.walk(fn):
            if isinstance(y, ast.Name) and isinstance(y.ctx, (ast.Store, ast.Del)):
                stores[y.id] = stores.get(y.id, 0) + 1
        params = set(a.arg for a in fn.args.posonlyargs + fn.args.args + fn.args.kwonlyargs)
        saved = self.partials
        scoped = dict((k, v) for k, v in saved.items() if k not in stores and k not in params)
        for st in fn.body:
            if isinstance(st, ast.Assign) and len(st.targets) == 1 and isinstance(st.targets[0], ast.Name) and isinstance(st.value, ast.Call) \
                    and self._is_partial(st.value.func) and st.value.args and isinstance(st.value.args[0], ast.Name) \
                    and stores.get(st.targets[0].id) == 1 and st.targets[0].id not in params \
                    and not any(isinstance(a, ast.Starred) for a in st.value.args) and not any(k.arg is None for k in st.value.keywords):
                scoped[st.targets[0].id] = st.value
        self.partials = scoped
        saved_stores = getattr(self, "_fn_stores", None)
        self._fn_stores = stores
        try:
            return self.generic_visit(fn)
        finally:
            self.partials = saved
            self._fn_stores = saved_stores

    def _first_match(self, v):
        """(loop variable, iterable, condition or None, element, default) when v is next((e for x in L if c...), <constant>)"""
        if not (isinstance(v, ast.Call) and isinstance(v.func, ast.Name) and v.func.id == "next" and len(v.args) == 2 and not v.keywords
                and (isinstance(v.args[1], ast.Constant) or (isinstance(v.args[1], ast.Name) and v.args[1].id in getattr(self, "sentinels", ())))
                and isinstance(v.args[0], ast.GeneratorExp) and len(v.args[0].generators) == 1):
            return None
        gen = v.args[0].generators[0]
        stores = getattr(self, "_fn_stores", None)
        if gen.is_async or not isinstance(gen.target, ast.Name) or stores is None or stores.get(gen.target.id) != 1:
            return None
        cond = None
        if gen.ifs:
            cond = gen.ifs[0] if len(gen.ifs) == 1 else ast.BoolOp(op=ast.And(), values=list(gen.ifs))
        return gen.target.id, gen.iter, cond, v.args[0].elt, v.args[1]

    visit_AsyncFunctionDef = visit_FunctionDef

    def visit_Call(self, c):
        self.generic_visit(c)
        # P(...) for a module level P = partial(F, ...)
        if isinstance(c.func, ast.Name) and c.func.id in self.partials and not any(isinstance(a, ast.Starred) for a in c.args) \
                and not any(k.arg is None for k in c.keywords):
            pc = self.partials[c.func.id]
            later = set(k.arg for k in c.keywords)
            kws = [copy.deepcopy(k) for k in pc.keywords if k.arg not in later] + c.keywords
            new = ast.Call(func=copy.deepcopy(pc.args[0]), args=[copy.deepcopy(a) for a in pc.args[1:]] + c.args, keywords=kws)
            return ast.copy_location(new, c)
        if isinstance(c.func, ast.Name) and c.func.id == "getattr" and len(c.args) == 3 and not c.keywords and _simple(c.args[0]) \
                and isinstance(c.args[1], ast.Constant) and isinstance(c.args[1].value, str) and c.args[1].value.isidentifier() \
                and isinstance(c.args[2], ast.Constant):
            has = ast.Call(func=ast.Name(id="hasattr", ctx=ast.Load()), args=[copy.deepcopy(c.args[0]), c.args[1]], keywords=[])
            return ast.copy_location(ast.IfExp(test=has, body=ast.Attribute(value=c.args[0], attr=c.args[1].value, ctx=ast.Load()),
                                               orelse=c.args[2]), c)
        # a deque used as a plain work list
        ft = ast.unparse(c.func)
        if ft in ("deque", "collections.deque") and len(c.args) <= 1 and not c.keywords:
            return ast.copy_location(ast.Call(func=ast.Name(id="list", ctx=ast.Load()), args=c.args, keywords=[]), c)
        if isinstance(c.func, ast.Attribute) and c.func.attr == "popleft" and not c.args and not c.keywords:
            return ast.copy_location(ast.Call(func=ast.Attribute(value=c.func.value, attr="pop", ctx=ast.Load()),
                                              args=[ast.Constant(value=0)], keywords=[]), c)
        if isinstance(c.func, ast.Attribute) and c.func.attr == "appendleft" and len(c.args) == 1 and not c.keywords:
            return ast.copy_location(ast.Call(func=ast.Attribute(value=c.func.value, attr="insert", ctx=ast.Load()),
                                              args=[ast.Constant(value=0), c.args[0]], keywords=[]), c)
        if isinstance(c.func, ast.Call) and self._is_partial(c.func.func) and c.func.args and not any(isinstance(a, ast.Starred) for a in c.func.args + c.args) \
                and not any(k.arg is None for k in c.func.keywords + c.keywords):
            # partial(F, a, k=b)(c)  ->  F(a, c, k=b)
            later = set(k.arg for k in c.keywords)
            kws = [k for k in c.func.keywords if k.arg not in later] + c.keywords
            return ast.copy_location(ast.Call(func=c.func.args[0], args=list(c.func.args[1:]) + list(c.args), keywords=kws), c)
        if isinstance(c.func, ast.Name) and c.func.id == "len" and len(c.args) == 1 and not c.keywords and isinstance(c.args[0], ast.Constant) \
                and isinstance(c.args[0].value, str):
            return ast.copy_location(ast.Constant(value=len(c.args[0].value)), c)
        gk = self._getter_kind(c.func)
        if gk == "methodcaller" and c.args and isinstance(c.args[0], ast.Constant) and isinstance(c.args[0].value, str) and c.args[0].value.isidentifier() \
                and all(_simple(a) for a in c.args[1:]) and all(k.arg and _simple(k.value) for k in c.keywords):
            # operator.methodcaller("m", a, k=b)  ->  lambda _obj: _obj.m(a, k=b)   (arguments that are names / constants: same value at every call)
            prm = ast.arg(arg="_obj")
            body = ast.Call(func=ast.Attribute(value=ast.Name(id="_obj", ctx=ast.Load()), attr=c.args[0].value, ctx=ast.Load()),
                            args=[copy.deepcopy(a) for a in c.args[1:]], keywords=[copy.deepcopy(k) for k in c.keywords])
            lam = ast.Lambda(args=ast.arguments(posonlyargs=[], args=[prm], kwonlyargs=[], kw_defaults=[], defaults=[]), body=body)
            return ast.copy_location(lam, c)
        if isinstance(c.func, ast.Lambda) and not c.keywords and not any(isinstance(a, ast.Starred) for a in c.args):
            # (lambda x: E)(a)  ->  E[x := a]   when a has no call or x is read exactly once
            la = c.func.args
            if not (la.posonlyargs or la.kwonlyargs or la.vararg or la.kwarg or la.defaults) and len(la.args) == len(c.args):
                names = [a.arg for a in la.args]
                reads = {}
                inner_bound = set()
                for y in ast.walk(c.func.body):
                    if isinstance(y, ast.Name):
                        if isinstance(y.ctx, ast.Load):
                            reads[y.id] = reads.get(y.id, 0) + 1
                        else:
                            inner_bound.add(y.id)
                    elif isinstance(y, ast.Lambda):
                        inner_bound |= set(z.arg for z in y.args.args)
                if not (inner_bound & set(names)) and all(reads.get(n0, 0) == 1 or _no_effect(a) for n0, a in zip(names, c.args)) \
                        and len([a for a in c.args if not _no_effect(a)]) <= 1 \
                        and not any(isinstance(y, ast.Name) and y.id in inner_bound for a in c.args for y in ast.walk(a)):
                    return ast.copy_location(_SubstExpr(dict(zip(names, c.args))).visit(copy.deepcopy(c.func.body)), c)
        if gk == "itemgetter" and c.args and not c.keywords and all(isinstance(a, ast.Constant) for a in c.args):
            prm = ast.arg(arg="_seq")
            subs = [ast.Subscript(value=ast.Name(id="_seq", ctx=ast.Load()), slice=copy.deepcopy(a), ctx=ast.Load()) for a in c.args]
            body = subs[0] if len(subs) == 1 else ast.Tuple(elts=subs, ctx=ast.Load())
            lam = ast.Lambda(args=ast.arguments(posonlyargs=[], args=[prm], kwonlyargs=[], kw_defaults=[], defaults=[]), body=body)
            return ast.copy_location(lam, c)
        if gk == "attrgetter" and c.args and not c.keywords and all(isinstance(a, ast.Constant) and isinstance(a.value, str)
                                                                    and all(p0.isidentifier() for p0 in a.value.split(".")) for a in c.args):
            prm = ast.arg(arg="_obj")

            def chain(path):
                e = ast.Name(id="_obj", ctx=ast.Load())
                for p0 in path.split("."):
                    e = ast.Attribute(value=e, attr=p0, ctx=ast.Load())
                return e
            subs = [chain(a.value) for a in c.args]
            body = subs[0] if len(subs) == 1 else ast.Tuple(elts=subs, ctx=ast.Load())
            lam = ast.Lambda(args=ast.arguments(posonlyargs=[], args=[prm], kwonlyargs=[], kw_defaults=[], defaults=[]), body=body)
            return ast.copy_location(lam, c)
        if isinstance(c.func, ast.Name) and c.func.id == "getattr" and len(c.args) == 2 and not c.keywords \
                and isinstance(c.args[1], ast.Constant) and isinstance(c.args[1].value, str) and c.args[1].value.isidentifier():
            return ast.copy_location(ast.Attribute(value=c.args[0], attr=c.args[1].value, ctx=ast.Load()), c)
        return c

    def visit_BinOp(self, e):
        # constant folding of what inlining leaves behind:  'a' + 'b' -> 'ab',  (x + '_') + 'get' -> x + '_get'
        self.generic_visit(e)
        if isinstance(e.op, ast.Add) and isinstance(e.right, ast.Constant) and isinstance(e.right.value, str):
            if isinstance(e.left, ast.Constant) and isinstance(e.left.value, str):
                return ast.copy_location(ast.Constant(value=e.left.value + e.right.value), e)
            if isinstance(e.left, ast.BinOp) and isinstance(e.left.op, ast.Add) and isinstance(e.left.right, ast.Constant) \
                    and isinstance(e.left.right.value, str):
                return ast.copy_location(ast.BinOp(left=e.left.left, op=ast.Add(), right=ast.Constant(value=e.left.right.value + e.right.value)), e)
        return e

    def visit_IfExp(self, e):
        # a if <test over constants> else b   (None is not None, after a default argument was put in)
        self.generic_visit(e)
        t = e.test
        if isinstance(t, ast.Compare) and len(t.ops) == 1 and isinstance(t.left, ast.Constant) and isinstance(t.comparators[0], ast.Constant) \
                and t.left.value is None and t.comparators[0].value is None and isinstance(t.ops[0], (ast.Is, ast.IsNot, ast.Eq, ast.NotEq)):
            return e.body if isinstance(t.ops[0], (ast.Is, ast.Eq)) else e.orelse
        return e

    def visit_Expr(self, st):
        self.generic_visit(st)
        c = st.value
        if isinstance(c, ast.YieldFrom) and isinstance(c.value, ast.GeneratorExp) and not any(g0.is_async for g0 in c.value.generators):
            # yield from (E for v in L if c)   ->   for v in L: if c: yield E        (the statement's value is not used)
            inner = ast.Expr(value=ast.Yield(value=c.value.elt))
            for g0 in reversed(c.value.generators):
                for cond in reversed(g0.ifs):
                    inner = ast.If(test=cond, body=[inner], orelse=[])
                inner = ast.For(target=g0.target, iter=g0.iter, body=[inner], orelse=[], lineno=st.lineno)
            ast.copy_location(inner, st)
            ast.fix_missing_locations(inner)
            return inner
        if isinstance(c, ast.YieldFrom) and isinstance(c.value, ast.Call) and isinstance(c.value.func, ast.Name) and c.value.func.id == "map" \
                and len(c.value.args) == 2 and not c.value.keywords and _simple(c.value.args[0]):
            # yield from map(f, L)   ->   for _item in L: yield f(_item)
            inner = ast.For(target=ast.Name(id="_map_item", ctx=ast.Store()), iter=c.value.args[1],
                            body=[ast.Expr(value=ast.Yield(value=ast.Call(func=c.value.args[0], args=[ast.Name(id="_map_item", ctx=ast.Load())], keywords=[])))],
                            orelse=[], lineno=st.lineno)
            ast.copy_location(inner, st)
            ast.fix_missing_locations(inner)
            return inner
        if isinstance(c, ast.Call) and isinstance(c.func, ast.Name) and c.func.id == "setattr" and len(c.args) == 3 and not c.keywords \
                and isinstance(c.args[1], ast.Constant) and isinstance(c.args[1].value, str) and c.args[1].value.isidentifier():
            tgt = ast.copy_location(ast.Attribute(value=c.args[0], attr=c.args[1].value, ctx=ast.Store()), c)
            return ast.copy_location(ast.Assign(targets=[tgt], value=c.args[2], lineno=st.lineno), st)
        return st


def _literal_like(v, depth=0):
    if isinstance(v, ast.Constant):
        return True
    # a selector built from literals: attrgetter("name", "type"), itemgetter(0), lambda x: x.name  (no free names but globals of builtins)
    if depth == 0 and isinstance(v, ast.Call) and not v.keywords and v.args and all(isinstance(a, ast.Constant) for a in v.args):
        fn = v.func.attr if isinstance(v.func, ast.Attribute) else v.func.id if isinstance(v.func, ast.Name) else ""
        if fn in ("attrgetter", "itemgetter"):
            return True
    if depth == 0 and isinstance(v, ast.Lambda) and not v.args.defaults and not v.args.kw_defaults and not v.args.vararg and not v.args.kwarg:
        params = set(a.arg for a in v.args.posonlyargs + v.args.args + v.args.kwonlyargs)
        if all(y.id in params for y in ast.walk(v.body) if isinstance(y, ast.Name)):
            return True
    if isinstance(v, (ast.Tuple, ast.List)) and depth < 2:
        return all(_literal_like(e, depth + 1) or _simple(e) for e in v.elts)
    if depth == 0 and isinstance(v, ast.Dict) and v.keys and all(isinstance(k, ast.Constant) for k in v.keys) \
            and all(isinstance(x, ast.Constant) for x in v.values):
        return True               # a private table of constants
    if isinstance(v, (ast.Tuple, ast.List)) and depth == 2:
        return all(isinstance(e, ast.Constant) for e in v.elts)        # the cells of a literal table of rows
    return False


class _InlinePrivateConstants(ast.NodeTransformer):
    """constant propagation of private module level constants into the functions that read them"""
    def __init__(self, tree):
        bound = {}
        for st in tree.body:
            if isinstance(st, (ast.FunctionDef, ast.AsyncFunctionDef, ast.ClassDef)):
                continue
            for y in ast.walk(st):
                if isinstance(y, ast.Name) and isinstance(y.ctx, (ast.Store, ast.Del)):
                    bound[y.id] = bound.get(y.id, 0) + 1
        glob = set(z for y in ast.walk(tree) if isinstance(y, ast.Global) for z in y.names)
        self.consts = {}
        for st in tree.body:
            if isinstance(st, ast.Assign) and len(st.targets) == 1 and isinstance(st.targets[0], ast.Name):
                n = st.targets[0].id
                if n.startswith("_") and not n.startswith("__") and bound.get(n) == 1 and n not in glob and _literal_like(st.value):
                    self.consts[n] = st.value
        self.shadow = [set()]

    def _locals(self, fn):
        out = set(a.arg for a in fn.args.posonlyargs + fn.args.args + fn.args.kwonlyargs)
        if fn.args.vararg:
            out.add(fn.args.vararg.arg)
        if fn.args.kwarg:
            out.add(fn.args.kwarg.arg)
        for y in ast.walk(fn):
            if isinstance(y, ast.Name) and isinstance(y.ctx, (ast.Store, ast.Del)):
                out.add(y.id)
            elif isinstance(y, (ast.FunctionDef, ast.AsyncFunctionDef, ast.ClassDef)) and y is not fn:
                out.add(y.name)
            elif isinstance(y, ast.ExceptHandler) and y.name:
                out.add(y.name)
            elif isinstance(y, (ast.Import, ast.ImportFrom)):
                for a in y.names:
                    out.add((a.asname or a.name).split(".")[0])
        return out

    def visit_FunctionDef(self, fn):
        self.shadow.append(self.shadow[-1] | self._locals(fn))
        fn.body = [self.visit(b) for b in fn.body]
        self.shadow.pop()
        return fn

    visit_AsyncFunctionDef = visit_FunctionDef

    def visit_Lambda(self, lam):
        self.shadow.append(self.shadow[-1] | set(a.arg for a in lam.args.posonlyargs + lam.args.args + lam.args.kwonlyargs))
        lam.body = self.visit(lam.body)
        self.shadow.pop()
        return lam

    def visit_Name(self, n):
        if len(self.shadow) > 1 and isinstance(n.ctx, ast.Load) and n.id in self.consts and n.id not in self.shadow[-1]:
            return ast.copy_location(copy.deepcopy(self.consts[n.id]), n)
        return n


def _lift_closed_local_functions(tree):
    """lambda lifting of local helper functions without free variables of their enclosing function"""
    import builtins as _b
    taken = set(n.name for n in tree.body if isinstance(n, (ast.FunctionDef, ast.AsyncFunctionDef, ast.ClassDef)))
    lifted = []

    def locals_of(fn):
        out = set(a.arg for a in fn.args.posonlyargs + fn.args.args + fn.args.kwonlyargs)
        if fn.args.vararg:
            out.add(fn.args.vararg.arg)
        if fn.args.kwarg:
            out.add(fn.args.kwarg.arg)
        for y in ast.walk(fn):
            if isinstance(y, ast.Name) and isinstance(y.ctx, (ast.Store, ast.Del)):
                out.add(y.id)
            elif isinstance(y, (ast.FunctionDef, ast.AsyncFunctionDef, ast.ClassDef)) and y is not fn:
                out.add(y.name)
            elif isinstance(y, ast.ExceptHandler) and y.name:
                out.add(y.name)
        return out

    def handle(outer, prefix):
        outer_locals = locals_of(outer)
        for i, st in enumerate(list(outer.body)):
            if not isinstance(st, ast.FunctionDef) or st.decorator_list:
                continue
            inner_locals = locals_of(st)
            reads = set(y.id for y in ast.walk(st) if isinstance(y, ast.Name) and isinstance(y.ctx, ast.Load))
            free = reads - inner_locals
            if free & (outer_locals - set([st.name])) or any(isinstance(y, (ast.Nonlocal, ast.Global, ast.Yield, ast.YieldFrom)) for y in ast.walk(st)):
                continue
            if st.name in free:          # recursive local function: keep it simple
                continue
            # bound exactly once in the outer function
            if sum(1 for y in ast.walk(outer) if isinstance(y, ast.FunctionDef) and y.name == st.name) != 1 or \
                    any(isinstance(y, ast.Name) and y.id == st.name and isinstance(y.ctx, (ast.Store, ast.Del)) for y in ast.walk(outer)):
                continue
            new_name = "_%s__%s" % (prefix.strip("_"), st.name.strip("_"))
            if new_name in taken:
                continue
            taken.add(new_name)
            old = st.name
            outer.body.remove(st)
            if not outer.body:
                outer.body.append(ast.copy_location(ast.Pass(), st))
            for y in ast.walk(outer):
                if isinstance(y, ast.Name) and y.id == old:
                    y.id = new_name
            st.name = new_name
            lifted.append(st)

    for top in list(tree.body):
        if isinstance(top, (ast.FunctionDef, ast.AsyncFunctionDef)):
            handle(top, top.name)
        elif isinstance(top, ast.ClassDef):
            for m in top.body:
                if isinstance(m, (ast.FunctionDef, ast.AsyncFunctionDef)):
                    handle(m, m.name)
    if lifted:
        # after the imports and constants, before the first class / function that may call them at import time it does not matter:
        # a def only has to exist when it is called
        tree.body.extend(lifted)
    return tree


class _RenameLocals(ast.NodeTransformer):
    def __init__(self, mapping):
        self.mapping = mapping

    def visit_Name(self, n):
        if n.id in self.mapping:
            return ast.copy_location(ast.Name(id=self.mapping[n.id], ctx=n.ctx), n)
        return n

    def visit_ExceptHandler(self, h):
        if h.name and h.name in self.mapping:
            h.name = self.mapping[h.name]
        return self.generic_visit(h)


def _function_locals(fn):
    out = [a.arg for a in fn.args.posonlyargs + fn.args.args + fn.args.kwonlyargs]
    for y in ast.walk(fn):
        if isinstance(y, ast.Name) and isinstance(y.ctx, (ast.Store, ast.Del)) and y.id not in out:
            out.append(y.id)
        elif isinstance(y, ast.ExceptHandler) and y.name and y.name not in out:
            out.append(y.name)
    return out


def _yield_sites(fn):
    """[(statement list that holds it, index, tail position?)] for the `yield E` statements of a simple generator, or None when the
    function is not one (yield used as an expression, yield from, return, nested defs, try/finally, with)"""
    sites = []
    ok = [True]

    def walk(stmts, tail, in_loop):
        for i, st in enumerate(stmts):
            last = tail and i == len(stmts) - 1
            if isinstance(st, ast.Expr) and isinstance(st.value, ast.Yield):
                if st.value.value is None:
                    ok[0] = False
                sites.append((stmts, i, last and in_loop))
            elif isinstance(st, ast.If):
                walk(st.body, last, in_loop)
                walk(st.orelse, last, in_loop)
            elif isinstance(st, (ast.For, ast.While)):
                if st.orelse:
                    ok[0] = False
                walk(st.body, True, True)
            elif isinstance(st, (ast.Return, ast.Try, ast.With, ast.FunctionDef, ast.AsyncFunctionDef, ast.ClassDef, ast.Global, ast.Nonlocal)):
                ok[0] = False
            else:
                if any(isinstance(y, (ast.Yield, ast.YieldFrom, ast.Lambda)) for y in ast.walk(st)):
                    ok[0] = False
    body = [st for st in fn.body if not (isinstance(st, ast.Expr) and isinstance(st.value, ast.Constant))]
    walk(body, False, False)
    if not ok[0] or not sites or len(sites) > 3:
        return None
    return sites


def _early_return_as_else(stmts):
    """`if c: A; return` followed by B is `if c: A else: B` (a bare return at the end of a branch at the top level of a generator)"""
    out = []
    for i, st in enumerate(stmts):
        if isinstance(st, ast.If) and not st.orelse and st.body and isinstance(st.body[-1], ast.Return) and st.body[-1].value is None \
                and not any(isinstance(y, ast.Return) for b in st.body[:-1] for y in ast.walk(b)):
            rest = _early_return_as_else(stmts[i + 1:])
            new = ast.copy_location(ast.If(test=st.test, body=st.body[:-1] or [ast.copy_location(ast.Pass(), st)], orelse=rest), st)
            out.append(new)
            return out
        out.append(st)
    return out


class _InlinePrivateGenerators(ast.NodeTransformer):
    """`for T in self._gen(a, b): BODY` over a small private generator of the same class / module is the body of the generator with every
    `yield E` replaced by `T = E; BODY` (parameters bound first, the generator's locals renamed).  Done only where that is the same
    program: the generator is a plain one (no return, try, with, yield from), BODY has no break, and a `continue` in BODY is allowed only
    when every yield is the last thing its loop iteration does."""
    def __init__(self, tree):
        self._tree = tree
        self.mod_funcs = dict((st.name, st) for st in tree.body if isinstance(st, ast.FunctionDef))
        self.cls_funcs = {}
        for st in tree.body:
            if isinstance(st, ast.ClassDef):
                self.cls_funcs[st.name] = dict((m.name, m) for m in st.body if isinstance(m, ast.FunctionDef))
        self.cls = None
        self.fn = None
        self.counter = 0
        self.depth = 0

    def visit_ClassDef(self, c):
        saved = self.cls
        self.cls = c.name
        self.generic_visit(c)
        self.cls = saved
        return c

    def visit_FunctionDef(self, fn):
        saved = self.fn
        self.fn = fn
        self.generic_visit(fn)
        self.fn = saved
        return fn

    def _callee(self, call):
        """(generator def, receiver expression or None, bound like a method?)"""
        f = call.func
        if isinstance(f, ast.Name) and f.id.startswith("_") and not f.id.startswith("__") and f.id in self.mod_funcs:
            return self.mod_funcs[f.id], None, False
        if isinstance(f, ast.Attribute) and f.attr.startswith("_") and not f.attr.startswith("__") and isinstance(f.value, ast.Name) and self.cls:
            meths = self.cls_funcs.get(self.cls, {})
            g = meths.get(f.attr)
            if g is None:
                return None
            static = any(isinstance(d, ast.Name) and d.id == "staticmethod" for d in g.decorator_list)
            clsm = any(isinstance(d, ast.Name) and d.id == "classmethod" for d in g.decorator_list)
            if clsm or any(not (isinstance(d, ast.Name) and d.id == "staticmethod") for d in g.decorator_list):
                return None
            caller_self = self.fn.args.args[0].arg if self.fn is not None and self.fn.args.args else None
            if f.value.id == self.cls and static:
                return g, None, False
            if static and caller_self is not None and f.value.id == caller_self:
                return g, None, False          # a static helper reached through cls / self
            if caller_self is not None and f.value.id == caller_self and not any(isinstance(d, ast.Name) and d.id in ("staticmethod", "classmethod")
                                                                                  for d in self.fn.decorator_list):
                return g, (None if static else f.value), not static
        return None

    def visit_For(self, st):
        self.generic_visit(st)
        it = st.iter
        if st.orelse or not isinstance(it, ast.Call) or self.fn is None or self.depth > 2:
            return st
        if it.keywords and any(k.arg is None for k in it.keywords) or any(isinstance(a, ast.Starred) for a in it.args):
            return st
        got = self._callee(it)
        if got is None:
            return st
        g, recv, bound = got
        if g is self.fn or not any(isinstance(y, ast.Yield) for y in ast.walk(g)):
            return st
        if g.args.vararg or g.args.kwarg or g.args.kwonlyargs or g.args.posonlyargs:
            return st
        if any(isinstance(y, ast.Return) for y in ast.walk(g)):
            g2 = copy.deepcopy(g)
            g2.body = _early_return_as_else([b for b in g2.body if not (isinstance(b, ast.Expr) and isinstance(b.value, ast.Constant))])
            ast.fix_missing_locations(g2)
            g = g2
        sites = _yield_sites(g)
        if sites is None:
            return st
        body_nodes = [y for b in st.body for y in ast.walk(b)]
        # break / continue that belong to this very loop (not to a loop nested in BODY)
        def own_jumps(stmts, kind):
            out = []
            for b in stmts:
                if isinstance(b, kind):
                    out.append(b)
                elif isinstance(b, (ast.For, ast.While, ast.FunctionDef, ast.ClassDef)):
                    continue
                else:
                    for fld in ("body", "orelse", "finalbody", "handlers"):
                        sub = getattr(b, fld, None)
                        if isinstance(sub, list):
                            out += own_jumps([h for h in sub if isinstance(h, ast.stmt)] +
                                             [x for h in sub if isinstance(h, ast.ExceptHandler) for x in h.body], kind)
            return out
        if own_jumps(st.body, ast.Break):
            return st
        if own_jumps(st.body, ast.Continue) and not all(tail for _, _, tail in sites):
            return st
        if len(body_nodes) > 400:
            return st
        params = [a.arg for a in g.args.args]
        args = list(it.args)
        kw = dict((k.arg, k.value) for k in it.keywords)
        binds = []
        pos = params[1:] if bound else params
        defaults = dict(zip(params[len(params) - len(g.args.defaults):], g.args.defaults))
        if len(args) > len(pos):
            return st
        self.counter += 1
        tag = "_%s%d__" % (g.name.strip("_"), self.counter)
        locals_ = _function_locals(g)
        mapping = dict((n, tag + n) for n in locals_)
        if bound:
            # the receiver is the caller's own self: keep the name
            mapping[params[0]] = recv.id
        gen_stored = set(y.id for y in ast.walk(g) if isinstance(y, ast.Name) and isinstance(y.ctx, (ast.Store, ast.Del)))
        const_args = {}
        for i, p in enumerate(pos):
            if i < len(args):
                v = args[i]
            elif p in kw:
                v = kw[p]
            elif p in defaults:
                v = copy.deepcopy(defaults[p])
            else:
                return st
            if isinstance(v, ast.Constant) and p not in gen_stored:
                const_args[mapping[p]] = v          # a literal argument (an attribute name, a label) is that literal wherever the generator reads it
            else:
                binds.append(ast.copy_location(ast.Assign(targets=[ast.Name(id=mapping[p], ctx=ast.Store())], value=v, lineno=st.lineno), st))
        if any(k not in pos for k in kw):
            return st
        gen_body = [copy.deepcopy(b) for b in g.body if not (isinstance(b, ast.Expr) and isinstance(b.value, ast.Constant))]

        def replace(stmts):
            out = []
            for b in stmts:
                if isinstance(b, ast.Expr) and isinstance(b.value, ast.Yield):
                    tgt = copy.deepcopy(st.target)
                    out.append(ast.copy_location(ast.Assign(targets=[tgt], value=b.value.value, lineno=st.lineno), st))
                    out.extend(copy.deepcopy(x) for x in st.body)
                    continue
                for fld in ("body", "orelse"):
                    sub = getattr(b, fld, None)
                    if isinstance(sub, list) and isinstance(b, (ast.If, ast.For, ast.While)):
                        setattr(b, fld, replace(sub))
                out.append(b)
            return out
        renamed = [_RenameLocals(mapping).visit(b) for b in gen_body]
        if const_args:
            renamed = [_SubstExpr(const_args).visit(b) for b in renamed]
        new_body = replace(renamed)
        res = binds + new_body
        for r in res:
            ast.fix_missing_locations(r)
        return res


def _selector_assigns(stmts):
    """{name: value} when the statements are only assignments of constants / simple expressions to local names (`kind, lst = "Section",
    self.sections`); None otherwise"""
    out = {}
    for st in stmts:
        if not (isinstance(st, ast.Assign) and len(st.targets) == 1):
            return None
        t, v = st.targets[0], st.value
        if isinstance(t, ast.Name) and (_simple(v) or isinstance(v, ast.Constant)):
            out[t.id] = v
        elif isinstance(t, ast.Tuple) and isinstance(v, ast.Tuple) and len(t.elts) == len(v.elts) \
                and all(isinstance(e, ast.Name) for e in t.elts) and all(_simple(e) for e in v.elts):
            for e, x in zip(t.elts, v.elts):
                out[e.id] = x
        else:
            return None
    return out or None


def _terminates(stmts):
    return bool(stmts) and isinstance(stmts[-1], (ast.Raise, ast.Return, ast.Continue, ast.Break))


def _chain_branches(ifst):
    """[(If node, body)] of an if / elif chain and its final else body (or None)"""
    out = []
    cur = ifst
    while True:
        out.append((cur, cur.body))
        if len(cur.orelse) == 1 and isinstance(cur.orelse[0], ast.If):
            cur = cur.orelse[0]
            continue
        return out, (cur.orelse or None), cur


class _SpecialiseSelectors(ast.NodeTransformer):
    """Tail duplication for branches that only pick constants: `if a: k, l = "S", x  elif b: k, l = "P", y  else: raise` followed by REST(k, l)
    is `if a: ...; REST  elif b: ...; REST  else: raise`, with the string constants put in for k inside each copy.  Afterwards a local
    dictionary display with constant keys that is only ever subscripted with constants is split into one local per key."""
    def _rewrite_block(self, stmts):
        for i, st in enumerate(stmts):
            if not isinstance(st, ast.If):
                continue
            rest = stmts[i + 1:]
            if not rest or len(rest) > 8:
                continue
            branches, final_else, last_if = _chain_branches(st)
            sels = [(node, body, _selector_assigns(body)) for node, body in branches]
            if any(a is None and not _terminates(body) for _, body, a in sels):
                continue
            if final_else is not None and not _terminates(final_else):
                fa = _selector_assigns(final_else)
                if fa is None:
                    continue
                sels.append((None, final_else, fa))
            elif final_else is None:
                continue          # falling through without a choice: REST would run with the old values
            picking = [x for x in sels if x[2] is not None]
            if len(picking) < 2:
                continue
            names = set(picking[0][2])
            if any(set(a) != names for _, _, a in picking):
                continue
            const_names = [n for n in names if all(isinstance(a[n], ast.Constant) and isinstance(a[n].value, str) for _, _, a in picking)]
            if not const_names:
                continue
            used = set(y.id for b in rest for y in ast.walk(b) if isinstance(y, ast.Name) and isinstance(y.ctx, ast.Load))
            if not any(n in used for n in const_names):
                continue
            stored = set(y.id for b in rest for y in ast.walk(b) if isinstance(y, ast.Name) and isinstance(y.ctx, (ast.Store, ast.Del)))
            if stored & names:
                continue
            if any(isinstance(y, (ast.FunctionDef, ast.Lambda, ast.ClassDef, ast.Yield, ast.YieldFrom)) for b in rest for y in ast.walk(b)):
                continue
            for node, body, a in picking:
                sub = dict((n, a[n]) for n in const_names)
                copy_rest = [_SubstExpr(sub).visit(copy.deepcopy(b)) for b in rest]
                body.extend(copy_rest)
            return stmts[:i + 1], True
        return stmts, False

    def generic_visit(self, node):
        super().generic_visit(node)
        for field in ("body", "orelse", "finalbody"):
            blk = getattr(node, field, None)
            if isinstance(blk, list) and blk and isinstance(blk[0], ast.stmt):
                changed = True
                n = 0
                while changed and n < 3:
                    blk, changed = self._rewrite_block(blk)
                    n += 1
                setattr(node, field, blk)
        return node

    def visit_If(self, st):
        # `if k in {"a": f, "b": g}: ... {"a": f, "b": g}[k] ...`  is  `if k == "a": ... f ...  elif k == "b": ... g ...` (+ the old else)
        self.generic_visit(st)
        t = st.test
        if not (isinstance(t, ast.Compare) and len(t.ops) == 1 and isinstance(t.ops[0], ast.In) and isinstance(t.left, ast.Name)
                and isinstance(t.comparators[0], ast.Dict)):
            return st
        d = t.comparators[0]
        if not d.keys or len(d.keys) > 6 or not all(isinstance(k, ast.Constant) and isinstance(k.value, str) for k in d.keys) \
                or not all(_simple(v) for v in d.values):
            return st
        var = t.left.id
        dtext = ast.dump(d)
        if any(isinstance(y, ast.Name) and y.id == var and isinstance(y.ctx, (ast.Store, ast.Del)) for b in st.body for y in ast.walk(b)):
            return st

        def specialise(stmts, key, val):
            class R(ast.NodeTransformer):
                def visit_Subscript(self, y):
                    self.generic_visit(y)
                    if isinstance(y.value, ast.Dict) and ast.dump(y.value) == dtext and isinstance(y.slice, ast.Name) and y.slice.id == var \
                            and isinstance(y.ctx, ast.Load):
                        return ast.copy_location(copy.deepcopy(val), y)
                    return y
            return [R().visit(copy.deepcopy(b)) for b in stmts]
        tail = list(st.orelse)
        for k, v in reversed(list(zip(d.keys, d.values))):
            test = ast.Compare(left=ast.Name(id=var, ctx=ast.Load()), ops=[ast.Eq()], comparators=[ast.Constant(value=k.value)])
            tail = [ast.copy_location(ast.If(test=test, body=specialise(st.body, k, v), orelse=tail), st)]
        ast.fix_missing_locations(tail[0])
        return tail[0]

    def visit_FunctionDef(self, fn):
        self.generic_visit(fn)
        _split_literal_dicts(fn)
        return fn

    visit_AsyncFunctionDef = visit_FunctionDef


def _split_literal_dicts(fn):
    """scalar replacement: `d = {"a": x, "b": y}` whose only other uses are d["a"] / d["b"] becomes `d__a = x; d__b = y`"""
    for st in list(ast.walk(fn)):
        if not (isinstance(st, ast.Assign) and len(st.targets) == 1 and isinstance(st.targets[0], ast.Name) and isinstance(st.value, ast.Dict)):
            continue
        name = st.targets[0].id
        keys = st.value.keys
        if not keys or not all(isinstance(k, ast.Constant) and isinstance(k.value, str) and k.value.isidentifier() for k in keys):
            continue
        occ = [y for y in ast.walk(fn) if isinstance(y, ast.Name) and y.id == name]
        subs = [y for y in ast.walk(fn) if isinstance(y, ast.Subscript) and isinstance(y.value, ast.Name) and y.value.id == name]
        if len(occ) != len(subs) + 1 or not subs:
            continue
        if not all(isinstance(y.slice, ast.Constant) and y.slice.value in [k.value for k in keys] and isinstance(y.ctx, ast.Load) for y in subs):
            continue
        if any(a.arg == name for a in fn.args.args + fn.args.kwonlyargs):
            continue

        class R(ast.NodeTransformer):
            def visit_Subscript(self, y):
                self.generic_visit(y)
                if isinstance(y.value, ast.Name) and y.value.id == name and isinstance(y.slice, ast.Constant):
                    return ast.copy_location(ast.Name(id="%s__%s" % (name, y.slice.value), ctx=ast.Load()), y)
                return y

            def visit_Assign(self, a):
                if a is st:
                    return [ast.copy_location(ast.Assign(targets=[ast.Name(id="%s__%s" % (name, k.value), ctx=ast.Store())], value=self.visit(v),
                                                         lineno=a.lineno), a) for k, v in zip(keys, a.value.values)]
                return self.generic_visit(a)
        R().visit(fn)
        ast.fix_missing_locations(fn)


def _function_table(e):
    """a display that carries behaviour as data: a tuple / list / dict display (possibly nested one level) whose leaves are names, attributes
    and constants, at least one of them a name or attribute (a function reference)"""
    if isinstance(e, ast.Dict):
        vals = [v for v in e.values] + [k for k in e.keys if k is not None]
        if any(k is None for k in e.keys):
            return False
    elif isinstance(e, (ast.Tuple, ast.List)):
        vals = list(e.elts)
    else:
        return False
    flat = []
    for v in vals:
        if isinstance(v, (ast.Tuple, ast.List)):
            flat += list(v.elts)
        else:
            flat.append(v)
    return bool(flat) and all(_simple(v) for v in flat) and any(isinstance(v, (ast.Name, ast.Attribute)) for v in flat)


class _InlineTableDrivenProcedures(_InlinePrivateGenerators):
    """`self._fill(target, source, (("sections", self._parse_sections),))` - a private helper that is called for its effect and is handed a table
    of functions - is replaced by the helper's body with the table put in for the parameter (other parameters bound to renamed locals).
    Only procedures: no return value, no yield, not recursive, at most 25 statements.  The loops over the table are then literal table loops."""
    def visit_For(self, st):
        return ast.NodeTransformer.generic_visit(self, st)

    def visit_Assign(self, st):
        # `x = self._collect(uri, table)` where the helper ends in its only `return <local>`: the body, then `x = <that local>`
        self.generic_visit(st)
        if not (len(st.targets) == 1 and isinstance(st.targets[0], ast.Name) and isinstance(st.value, ast.Call)):
            return st
        res = self._inline(st, st.value, result_to=st.targets[0].id)
        return res if res is not None else st

    def visit_Expr(self, st):
        self.generic_visit(st)
        res = self._inline(st, st.value, result_to=None)
        return res if res is not None else st

    def _inline(self, st, call, result_to):
        if not isinstance(call, ast.Call) or self.fn is None:
            return None
        r = self._inline0(st, call, result_to)
        return None if r is st else r

    def visit_Return(self, st):
        # `return _shared_body(x, "time", dt.time, FMT, methodcaller("strftime", FMT), lambda p: p)` - the whole body of a public function is a
        # private helper that is handed behaviour (a lambda, an operator.* / functools.partial object, a table of functions): the call is in
        # tail position, so it is the helper's body itself (its returns stay returns) with the arguments put in for the parameters
        self.generic_visit(st)
        call = st.value
        if not isinstance(call, ast.Call) or self.fn is None or call.keywords or any(isinstance(a, ast.Starred) for a in call.args):
            return st
        if not hasattr(self, "_behaviour_names"):
            self._behaviour_names = set()
            for y in ast.walk(self._tree):
                if isinstance(y, ast.ImportFrom) and y.module in ("operator", "functools"):
                    self._behaviour_names |= set(a.asname or a.name for a in y.names)

        def behaviour(a):
            if isinstance(a, ast.Lambda) or _function_table(a):
                return True
            if isinstance(a, ast.Call):
                fn = a.func
                return (isinstance(fn, ast.Name) and fn.id in self._behaviour_names) or \
                    (isinstance(fn, ast.Attribute) and isinstance(fn.value, ast.Name) and fn.value.id in ("operator", "functools"))
            return False
        if not any(behaviour(a) for a in call.args):
            return st
        got = self._callee(call)
        if got is None:
            return st
        g, recv, bound = got
        body = [b for b in g.body if not (isinstance(b, ast.Expr) and isinstance(b.value, ast.Constant))]
        if g is self.fn or _reviewed(g.name) or any(isinstance(y, (ast.Yield, ast.YieldFrom, ast.FunctionDef, ast.ClassDef, ast.Global, ast.Nonlocal))
                                                    for b in body for y in ast.walk(b)):
            return st
        if any(isinstance(y, ast.Call) and (getattr(y.func, "attr", None) == g.name or getattr(y.func, "id", None) == g.name) for b in body for y in ast.walk(b)):
            return st
        if len([y for b in body for y in ast.walk(b) if isinstance(y, ast.stmt)]) > 25 or not body or not isinstance(body[-1], (ast.Return, ast.Raise)):
            return st
        if g.args.vararg or g.args.kwarg or g.args.kwonlyargs or g.args.posonlyargs or g.args.defaults:
            return st
        params = [a.arg for a in g.args.args]
        pos = params[1:] if bound else params
        if len(call.args) != len(pos):
            return st
        self.counter += 1
        tag = "_%s%d__" % (g.name.strip("_"), self.counter)
        mapping = dict((n, tag + n) for n in _function_locals(g))
        if bound:
            mapping[params[0]] = recv.id
        stored = set(y.id for b in body for y in ast.walk(b) if isinstance(y, ast.Name) and isinstance(y.ctx, (ast.Store, ast.Del)))
        binds, subst = [], {}
        for p0, a in zip(pos, call.args):
            if (behaviour(a) or isinstance(a, ast.Constant) or (_simple(a) and not isinstance(a, ast.Name))) and p0 not in stored:
                subst[mapping[p0]] = a
            elif isinstance(a, ast.Name) and p0 not in stored and a.id not in stored and a.id in [x.arg for x in self.fn.args.args] \
                    and not any(isinstance(y, ast.Name) and y.id == a.id and isinstance(y.ctx, ast.Store) for y in ast.walk(self.fn)):
                subst[mapping[p0]] = a            # a parameter of the caller that nobody re-binds: the same name
            else:
                binds.append(ast.Assign(targets=[ast.Name(id=mapping[p0], ctx=ast.Store())], value=a, lineno=st.lineno))
        new_body = [_SubstExpr(subst).visit(_RenameLocals(mapping).visit(copy.deepcopy(b))) for b in body]
        res = binds + new_body
        _INLINED.append(g)
        for r in res:
            ast.copy_location(r, st)
            ast.fix_missing_locations(r)
        return res

    def _inline0(self, st, call, result_to):
        # a table kept in a local that is bound once (`nested = ((k, f), ...)`) is that table
        def table_of(a):
            if isinstance(a, ast.Name):
                defs = [y for y in ast.walk(self.fn) if isinstance(y, ast.Name) and y.id == a.id and isinstance(y.ctx, (ast.Store, ast.Del))]
                asg = [y for y in ast.walk(self.fn) if isinstance(y, ast.Assign) and len(y.targets) == 1 and isinstance(y.targets[0], ast.Name)
                       and y.targets[0].id == a.id]
                if len(defs) == 1 and len(asg) == 1 and _function_table(asg[0].value) and a.id not in [p.arg for p in self.fn.args.args]:
                    return asg[0].value
            return a
        if any(isinstance(a, ast.Name) for a in call.args):
            call = ast.copy_location(ast.Call(func=call.func, args=[table_of(a) for a in call.args], keywords=call.keywords), call)
        has_table = any(_function_table(a) for a in call.args)
        if not has_table and not any(isinstance(a, ast.Constant) and isinstance(a.value, str) for a in call.args):
            return st
        if any(isinstance(a, ast.Starred) for a in call.args) or call.keywords:
            return st
        got = self._callee(call)
        if got is None:
            # a class method reached through cls / the class name
            f = call.func
            if isinstance(f, ast.Attribute) and isinstance(f.value, ast.Name) and self.cls and f.attr.startswith("_") and not f.attr.startswith("__"):
                g0 = self.cls_funcs.get(self.cls, {}).get(f.attr)
                caller_first = self.fn.args.args[0].arg if self.fn.args.args else None
                if g0 is not None and any(isinstance(d, ast.Name) and d.id == "classmethod" for d in g0.decorator_list) \
                        and f.value.id in (self.cls, caller_first):
                    got = (g0, f.value, True)
        if got is None:
            return st
        g, recv, bound = got
        if not has_table and _reviewed(g.name):
            return st
        if not has_table:
            # `self._store_optional("_unit", v)`: a string argument that the helper uses as the name of an attribute (getattr / setattr / hasattr)
            ps = [a.arg for a in g.args.args][1 if bound else 0:]
            named = set(y.args[1].id for y in ast.walk(g) if isinstance(y, ast.Call) and isinstance(y.func, ast.Name)
                        and y.func.id in ("getattr", "setattr", "hasattr", "delattr") and len(y.args) >= 2 and isinstance(y.args[1], ast.Name))
            if len(call.args) != len(ps) or not any(isinstance(a, ast.Constant) and isinstance(a.value, str) and p0 in named for p0, a in zip(ps, call.args)):
                return st
        gbody = list(g.body)
        ret_name = None
        if result_to is not None:
            if not (gbody and isinstance(gbody[-1], ast.Return) and isinstance(gbody[-1].value, ast.Name)):
                return st
            ret_name = gbody[-1].value.id
            gbody = gbody[:-1]
        if g is self.fn or any(isinstance(y, (ast.Yield, ast.YieldFrom, ast.Return, ast.FunctionDef, ast.Lambda, ast.ClassDef, ast.Global, ast.Nonlocal))
                               for b in gbody for y in ast.walk(b)):
            return st
        if any(isinstance(y, ast.Call) and isinstance(y.func, (ast.Attribute, ast.Name)) and (getattr(y.func, "attr", None) == g.name or getattr(y.func, "id", None) == g.name)
               for b in gbody for y in ast.walk(b)):
            return st
        body = [b for b in gbody if not (isinstance(b, ast.Expr) and isinstance(b.value, ast.Constant))]
        if len([y for b in body for y in ast.walk(b) if isinstance(y, ast.stmt)]) > 25:
            return st
        if g.args.vararg or g.args.kwarg or g.args.kwonlyargs or g.args.posonlyargs or g.args.defaults:
            return st
        params = [a.arg for a in g.args.args]
        pos = params[1:] if bound else params
        if len(call.args) != len(pos):
            return st
        self.counter += 1
        tag = "_%s%d__" % (g.name.strip("_"), self.counter)
        mapping = dict((n, tag + n) for n in _function_locals(g))
        if bound:
            mapping[params[0]] = recv.id
        stored = set(y.id for b in body for y in ast.walk(b) if isinstance(y, ast.Name) and isinstance(y.ctx, (ast.Store, ast.Del)))
        binds, subst = [], {}
        for p0, a in zip(pos, call.args):
            if (_function_table(a) or (isinstance(a, ast.Constant) and isinstance(a.value, str))) and p0 not in stored:
                subst[mapping[p0]] = a
            else:
                binds.append(ast.copy_location(ast.Assign(targets=[ast.Name(id=mapping[p0], ctx=ast.Store())], value=a, lineno=st.lineno), st))
        new_body = [_SubstExpr(subst).visit(_RenameLocals(mapping).visit(copy.deepcopy(b))) for b in body]
        res = binds + new_body
        if ret_name is not None:
            res.append(ast.Assign(targets=[ast.Name(id=result_to, ctx=ast.Store())], value=ast.Name(id=mapping.get(ret_name, ret_name), ctx=ast.Load()),
                                  lineno=st.lineno))
        for r in res:
            ast.copy_location(r, st)
            ast.fix_missing_locations(r)
        return res


def _helper_expression(g):
    """the result expression of a helper whose body is `return E` or a chain `if t: return a` ... `return b` (as a conditional expression)"""
    body = [b for b in g.body if not (isinstance(b, ast.Expr) and isinstance(b.value, ast.Constant))]
    if not body or not isinstance(body[-1], ast.Return) or body[-1].value is None:
        return None
    e = body[-1].value
    if len(body) > 1 and any(isinstance(y, ast.Attribute) and isinstance(y.value, ast.Name) and g.args.args and y.value.id == g.args.args[0].arg
                             for b in body for r in ast.walk(b) if isinstance(r, ast.Return) and r.value is not None for y in [r.value]):
        return None        # a chain that selects one of the receiver's own locations (`return self._sections` ...): read by the rules as a helper with cases
    for b in reversed(body[:-1]):
        if not (isinstance(b, ast.If) and not b.orelse and len(b.body) == 1 and isinstance(b.body[0], ast.Return) and b.body[0].value is not None):
            return None
        e = ast.IfExp(test=b.test, body=b.body[0].value, orelse=e)
    if any(isinstance(y, (ast.Yield, ast.YieldFrom, ast.Await, ast.Lambda, ast.NamedExpr)) for y in ast.walk(e)):
        return None
    return e


def _no_effect(e):
    return not any(isinstance(y, (ast.Call, ast.Yield, ast.YieldFrom, ast.Await, ast.NamedExpr)) for y in ast.walk(e))


class _InlineExpressionHelpers(_InlinePrivateGenerators):
    """`self._typed(v)` / `_blank_to_none(x)` / `cls._make_id(oid)` - a call of a private helper of the same module / class whose body is one
    result expression (`return E`, or `if t: return a` ... `return b`) - is that expression with the arguments put in for the parameters.
    Done only where it is the same program: no starred arguments, the helper is not recursive and not decorated (staticmethod aside), a
    parameter that the expression reads more than once - or not at all - gets an argument without calls, and no name of the expression is
    a local of the calling function (or is bound by a comprehension of the expression and read by an argument)."""
    def visit_For(self, st):
        return ast.NodeTransformer.generic_visit(self, st)

    def visit_FunctionDef(self, fn):
        saved, saved_locals = self.fn, getattr(self, "fn_locals", None)
        self.fn = fn
        self.fn_locals = set(_function_locals(fn))
        self.generic_visit(fn)
        self.fn, self.fn_locals = saved, saved_locals
        return fn

    def visit_Call(self, call):
        self.generic_visit(call)
        if self.depth > 3 or any(isinstance(a, ast.Starred) for a in call.args) or any(k.arg is None for k in call.keywords):
            return call
        got = None
        f = call.func
        if isinstance(f, ast.Name) and f.id.startswith("_") and not f.id.startswith("__") and f.id in self.mod_funcs \
                and not self.mod_funcs[f.id].decorator_list:
            got = (self.mod_funcs[f.id], None, False)
        elif self.fn is not None:
            got = self._callee(call)
            if got is None and isinstance(f, ast.Attribute) and isinstance(f.value, ast.Name) and self.cls and f.attr.startswith("_") \
                    and not f.attr.startswith("__"):
                g0 = self.cls_funcs.get(self.cls, {}).get(f.attr)
                first = self.fn.args.args[0].arg if self.fn.args.args else None
                if g0 is not None and len(g0.decorator_list) == 1 and isinstance(g0.decorator_list[0], ast.Name) \
                        and g0.decorator_list[0].id == "classmethod" and f.value.id in (self.cls, first):
                    got = (g0, f.value, True)
        if got is None:
            return call
        g, recv, bound = got
        if g is self.fn or g.args.vararg or g.args.kwarg or g.args.kwonlyargs or g.args.posonlyargs or _reviewed(g.name):
            return call
        e = _helper_expression(g)
        if e is None:
            return call
        if any(isinstance(y, ast.Call) and (getattr(y.func, "attr", None) == g.name or getattr(y.func, "id", None) == g.name) for y in ast.walk(e)):
            return call
        params = [a.arg for a in g.args.args]
        pos = params[1:] if bound else params
        defaults = dict(zip(params[len(params) - len(g.args.defaults):], g.args.defaults))
        kw = dict((k.arg, k.value) for k in call.keywords)
        if len(call.args) > len(pos) or any(k not in pos for k in kw):
            return call
        subst = {}
        for i, p0 in enumerate(pos):
            if i < len(call.args):
                if p0 in kw:
                    return call
                subst[p0] = call.args[i]
            elif p0 in kw:
                subst[p0] = kw[p0]
            elif p0 in defaults:
                subst[p0] = defaults[p0]
            else:
                return call
        if bound:
            subst[params[0]] = recv
        reads = {}
        bound_inside = set()
        for y in ast.walk(e):
            if isinstance(y, ast.Name):
                if isinstance(y.ctx, ast.Load):
                    reads[y.id] = reads.get(y.id, 0) + 1
                else:
                    bound_inside.add(y.id)
        if bound_inside & set(params):
            return call
        for p0, a in subst.items():
            if reads.get(p0, 0) != 1 and not _no_effect(a):
                return call
            if any(isinstance(y, ast.Name) and y.id in bound_inside for y in ast.walk(a)):
                return call
        # evaluation order: with more than one effectful argument keep the call unless they are read in parameter order exactly once
        if len([a for a in subst.values() if not _no_effect(a)]) > 1:
            return call
        free = set(reads) - set(params) - bound_inside
        if self.fn is not None and free & (getattr(self, "fn_locals", None) or set()):
            return call
        new = _SubstExpr(subst).visit(copy.deepcopy(e))
        _INLINED.append(g)
        self.depth += 1
        try:
            new = self.visit(new)
        finally:
            self.depth -= 1
        return ast.copy_location(new, call)


class _InlineContextManagers(_InlinePrivateGenerators):
    """`with self._restoring(x) as v: BODY` over a private @contextmanager generator of the same class / module with exactly one `yield` is the
    generator's body with the yield statement replaced by `v = <yielded>; BODY` (parameters bound first, locals renamed): the exception
    edges of BODY then run through the generator's own try / except / finally, as they do at run time.  Only where that is the same
    program: one with-item, the yield is a statement at the top level of the body or directly inside one try statement, BODY has no
    return / break / continue / yield, and no handler of that try swallows the exception (each ends in a bare `raise`), or there is none."""
    def visit_For(self, st):
        return ast.NodeTransformer.generic_visit(self, st)

    def _cm(self, call):
        f = call.func
        g = None
        recv, bound = None, False
        if isinstance(f, ast.Name) and f.id in self.mod_funcs:
            g = self.mod_funcs[f.id]
        elif isinstance(f, ast.Attribute) and isinstance(f.value, ast.Name) and self.cls and self.fn is not None and self.fn.args.args \
                and f.value.id == self.fn.args.args[0].arg:
            g = self.cls_funcs.get(self.cls, {}).get(f.attr)
            recv, bound = f.value, True
        if g is None or not g.name.startswith("_"):
            return None
        decs = [ast.unparse(d) for d in g.decorator_list]
        if decs not in (["contextmanager"], ["contextlib.contextmanager"]):
            return None
        return g, recv, bound

    def visit_With(self, st):
        self.generic_visit(st)
        if len(st.items) != 1 or not isinstance(st.items[0].context_expr, ast.Call) or self.fn is None:
            return st
        call = st.items[0].context_expr
        tgt = st.items[0].optional_vars
        if tgt is not None and not isinstance(tgt, ast.Name):
            return st
        if call.keywords or any(isinstance(a, ast.Starred) for a in call.args):
            return st
        got = self._cm(call)
        if got is None:
            return st
        g, recv, bound = got
        if g.args.vararg or g.args.kwarg or g.args.kwonlyargs or g.args.posonlyargs or g.args.defaults or _reviewed(g.name):
            return st
        if any(isinstance(y, (ast.Return, ast.Break, ast.Continue, ast.Yield, ast.YieldFrom)) for b in st.body for y in ast.walk(b)):
            return st
        body = [b for b in g.body if not (isinstance(b, ast.Expr) and isinstance(b.value, ast.Constant))]
        yields = [y for b in body for y in ast.walk(b) if isinstance(y, (ast.Yield, ast.YieldFrom))]
        if len(yields) != 1 or not isinstance(yields[0], ast.Yield) or any(isinstance(y, (ast.Return, ast.FunctionDef, ast.Lambda)) for b in body for y in ast.walk(b)):
            return st

        def is_yield(b):
            return isinstance(b, ast.Expr) and b.value is yields[0]
        where = None
        for b in body:
            if is_yield(b):
                where = ("top", None)
            elif isinstance(b, ast.Try) and any(is_yield(x) for x in b.body):
                if not all(h.body and isinstance(h.body[-1], ast.Raise) and h.body[-1].exc is None for h in b.handlers):
                    return st
                where = ("try", b)
        if where is None:
            return st
        params = [a.arg for a in g.args.args]
        pos = params[1:] if bound else params
        if len(call.args) != len(pos):
            return st
        self.counter += 1
        tag = "_%s%d__" % (g.name.strip("_"), self.counter)
        mapping = dict((n, tag + n) for n in _function_locals(g))
        if bound:
            mapping[params[0]] = recv.id
        binds = [ast.Assign(targets=[ast.Name(id=mapping[p0], ctx=ast.Store())], value=a, lineno=st.lineno) for p0, a in zip(pos, call.args)]

        def build(stmts):
            out = []
            for b in stmts:
                if is_yield(b):
                    if tgt is not None:
                        val = _RenameLocals(mapping).visit(copy.deepcopy(b.value.value)) if b.value.value is not None else ast.Constant(value=None)
                        out.append(ast.Assign(targets=[ast.Name(id=tgt.id, ctx=ast.Store())], value=val, lineno=st.lineno))
                    out.extend(st.body)
                elif isinstance(b, ast.Try) and where[1] is b:
                    nb = copy.copy(b)
                    nb.body = build(b.body)
                    nb.handlers = [_RenameLocals(mapping).visit(copy.deepcopy(h)) for h in b.handlers]
                    nb.orelse = [_RenameLocals(mapping).visit(copy.deepcopy(x)) for x in b.orelse]
                    nb.finalbody = [_RenameLocals(mapping).visit(copy.deepcopy(x)) for x in b.finalbody]
                    out.append(nb)
                else:
                    out.append(_RenameLocals(mapping).visit(copy.deepcopy(b)))
            return out
        res = binds + build(body)
        _INLINED.append(g)
        for r in res:
            ast.copy_location(r, st)
            ast.fix_missing_locations(r)
        return res



def _strip_doc(body):
    return [b for b in body if not (isinstance(b, ast.Expr) and isinstance(b.value, ast.Constant))]


class _ExpandPrivateDecorators(object):
    """A private decorator defined in the same module is applied at definition time:
      * a *registering* decorator - `def D(f): <statements>; return f`, or the factory form `def D(*a): def inner(f): ...; return f; return inner` -
        is the plain definition followed by those statements (f := the function, parameters := the arguments);
      * a *wrapping* decorator - `def D(f): [@functools.wraps(f)] def W(params): BODY; return W` (or its factory form) - is the definition of
        the wrapped function under the private name _<name>__wrapped followed by `def <name>(params): BODY` with f := that function; a BODY
        that is `return f(args)` is the wrapped body itself with the arguments bound.
    Decorators are expanded from the innermost outwards and only while they are of these two kinds; a registering decorator is expanded
    only when no other decorator stays above it (the registered object would differ)."""
    def __init__(self, tree):
        self.mod_funcs = dict((st.name, st) for st in tree.body if isinstance(st, ast.FunctionDef))
        self.counter = 0
        self.changed = False

    def run(self, tree):
        tree.body = self._block(tree.body, None)
        # a private decorator that was expanded at every use and is mentioned nowhere else is no longer part of the program
        for name in sorted(getattr(self, "expanded", ())):
            d = self.mod_funcs.get(name)
            if d is None or d not in tree.body:
                continue
            inside = set(id(y) for y in ast.walk(d))
            if not any(((isinstance(y, ast.Name) and y.id == name) or (isinstance(y, ast.Attribute) and y.attr == name) or
                        (isinstance(y, ast.Constant) and y.value == name)) for y in ast.walk(tree) if id(y) not in inside):
                tree.body.remove(d)
        return tree

    def _block(self, body, cls):
        out = []
        for st in body:
            if isinstance(st, ast.ClassDef):
                st.body = self._block(st.body, st)
                out.append(st)
            elif isinstance(st, ast.FunctionDef) and st.decorator_list:
                out.extend(self._expand(st, cls))
            else:
                out.append(st)
        return out

    def _shape(self, dec):
        """(kind, decorator def, inner def or None, {factory parameter: argument}) for a decorator expression, or None"""
        if isinstance(dec, ast.Name):
            name, call = dec.id, None
        elif isinstance(dec, ast.Call) and isinstance(dec.func, ast.Name):
            name, call = dec.func.id, dec
        else:
            return None
        d = self.mod_funcs.get(name)
        if d is None or not name.startswith("_") or name.startswith("__") or d.decorator_list or _reviewed(name):
            return None
        body = _strip_doc(d.body)
        binds = {}
        target = d
        if call is not None:
            # factory: def D(params): def inner(f): ...; return inner
            if len(body) != 2 or not isinstance(body[0], ast.FunctionDef) or not isinstance(body[1], ast.Return) \
                    or not isinstance(body[1].value, ast.Name) or body[1].value.id != body[0].name or body[0].decorator_list:
                return None
            a = d.args
            if a.kwonlyargs or a.posonlyargs or a.kwarg or a.defaults or call.keywords or any(isinstance(x, ast.Starred) for x in call.args):
                return None
            ps = [x.arg for x in a.args]
            if len(call.args) < len(ps) or (len(call.args) > len(ps) and not a.vararg):
                return None
            if not all(_simple(x) for x in call.args):
                return None
            for p0, x in zip(ps, call.args):
                binds[p0] = x
            if a.vararg:
                binds[a.vararg.arg] = ast.Tuple(elts=list(call.args[len(ps):]), ctx=ast.Load())
            target = body[0]
            body = _strip_doc(target.body)
        a = target.args
        if len(a.args) != 1 or a.vararg or a.kwarg or a.kwonlyargs or a.posonlyargs or a.defaults:
            return None
        f = a.args[0].arg
        if not body or not isinstance(body[-1], ast.Return) or not isinstance(body[-1].value, ast.Name):
            return None
        stored = set(y.id for b in body for y in ast.walk(b) if isinstance(y, ast.Name) and isinstance(y.ctx, (ast.Store, ast.Del)))
        if f in stored or set(binds) & stored:
            return None
        if body[-1].value.id == f:
            if any(isinstance(y, (ast.FunctionDef, ast.Lambda, ast.Return, ast.Yield, ast.YieldFrom, ast.Global, ast.Nonlocal)) for b in body[:-1] for y in ast.walk(b)):
                return None
            return ("register", f, body[:-1], binds)
        if len(body) == 2 and isinstance(body[0], ast.FunctionDef) and body[1].value.id == body[0].name:
            w = body[0]
            for wd in w.decorator_list:
                if not (isinstance(wd, ast.Call) and ast.unparse(wd.func) in ("functools.wraps", "wraps") and len(wd.args) == 1
                        and isinstance(wd.args[0], ast.Name) and wd.args[0].id == f):
                    return None
            if w.args.vararg or w.args.kwarg or w.args.kwonlyargs or w.args.posonlyargs:
                return None
            # the wrapped function is only called inside the wrapper
            uses = [y for y in ast.walk(w) if isinstance(y, ast.Name) and y.id == f]
            calls = [y for y in ast.walk(w) if isinstance(y, ast.Call) and isinstance(y.func, ast.Name) and y.func.id == f]
            if len(uses) != len(calls) + len(w.decorator_list) or not calls:
                return None
            return ("wrap", f, w, binds)
        return None

    def _expand(self, fn, cls):
        decs = list(fn.decorator_list)
        post = []
        pre = []
        cur = fn
        while decs:
            sh = self._shape(decs[-1])
            if sh is None:
                break
            kind, f, what, binds = sh
            if kind == "register":
                if cls is not None or len(decs) > 1 and any(self._shape(d0) is None or self._shape(d0)[0] != "register" for d0 in decs[:-1]):
                    break
                self.counter += 1
                tag = "_reg%d_" % self.counter
                locs = set(y.id for b in what for y in ast.walk(b) if isinstance(y, ast.Name) and isinstance(y.ctx, (ast.Store, ast.Del)))
                mapping = dict((n, tag + n) for n in locs)
                sub = dict(binds)
                sub[f] = ast.Name(id=fn.name, ctx=ast.Load())
                for b in what:
                    nb = _SubstExpr(sub).visit(_RenameLocals(mapping).visit(copy.deepcopy(b)))
                    ast.copy_location(nb, fn)
                    if isinstance(nb, ast.For) and isinstance(nb.iter, (ast.Tuple, ast.List)) and all(isinstance(x, ast.Constant) for x in nb.iter.elts) \
                            and isinstance(nb.target, ast.Name) and not nb.orelse \
                            and not any(isinstance(y, (ast.Break, ast.Continue)) for x in nb.body for y in ast.walk(x)) \
                            and not any(isinstance(y, ast.Name) and y.id == nb.target.id and isinstance(y.ctx, ast.Store) for x in nb.body for y in ast.walk(x)):
                        # a loop over the literal arguments of the decorator: once per argument
                        for x in nb.iter.elts:
                            for bb in nb.body:
                                post.append(_SubstExpr({nb.target.id: x}).visit(copy.deepcopy(bb)))
                    else:
                        post.append(nb)
                decs.pop()
                continue
            # wrap
            w = what
            self.counter += 1
            impl_name = "_%s__wrapped%d" % (fn.name.strip("_"), self.counter)
            impl = copy.deepcopy(cur)
            impl.name = impl_name
            impl.decorator_list = []
            first = w.args.args[0].arg if w.args.args else None
            new = copy.deepcopy(w)
            new.name = fn.name
            new.decorator_list = []
            ok = [True]

            class _Calls(ast.NodeTransformer):
                def visit_Call(self2, c):
                    self2.generic_visit(c)
                    if isinstance(c.func, ast.Name) and c.func.id == f:
                        if cls is None:
                            c.func = ast.Name(id=impl_name, ctx=ast.Load())
                        elif c.args and isinstance(c.args[0], ast.Name) and c.args[0].id == first and not c.keywords:
                            c.func = ast.Attribute(value=c.args[0], attr=impl_name, ctx=ast.Load())
                            c.args = c.args[1:]
                        else:
                            ok[0] = False
                    return c
            new = _Calls().visit(new)
            if not ok[0]:
                break
            new.body = [_SubstExpr(binds).visit(b) for b in new.body] if binds else new.body
            # a wrapper that ends in `return <wrapped>(args)`: the wrapped body with the arguments bound
            nb = _strip_doc(new.body)
            if len(nb) == 1 and isinstance(nb[0], ast.Return) and isinstance(nb[0].value, ast.Call) and not nb[0].value.keywords \
                    and ((cls is None and isinstance(nb[0].value.func, ast.Name) and nb[0].value.func.id == impl_name) or
                         (cls is not None and isinstance(nb[0].value.func, ast.Attribute) and nb[0].value.func.attr == impl_name)) \
                    and not any(isinstance(y, (ast.Yield, ast.YieldFrom)) for y in ast.walk(impl)) \
                    and not (impl.args.vararg or impl.args.kwarg or impl.args.kwonlyargs or impl.args.posonlyargs or impl.args.defaults):
                call = nb[0].value
                iparams = [x.arg for x in impl.args.args]
                cargs = ([call.func.value] if cls is not None else []) + list(call.args)
                wparams = [x.arg for x in new.args.args]
                if len(cargs) == len(iparams) and iparams == wparams:
                    binds2 = []
                    for p0, a0 in zip(iparams, cargs):
                        if not (isinstance(a0, ast.Name) and a0.id == p0):
                            binds2.append((p0, a0))
                    # every rebinding reads only its own parameter (or nothing of the parameters): order does not matter
                    if all(set(y.id for y in ast.walk(a0) if isinstance(y, ast.Name)) & set(iparams) <= set([p0]) for p0, a0 in binds2):
                        body2 = [ast.Assign(targets=[ast.Name(id=p0, ctx=ast.Store())], value=a0, lineno=fn.lineno) for p0, a0 in binds2]
                        new.body = body2 + copy.deepcopy(_strip_doc(impl.body))
                        impl = None
            if impl is not None:
                pre.append(impl)
            cur = new
            decs.pop()
        if cur is fn and not post:
            return [fn]
        self.changed = True
        self.expanded = getattr(self, "expanded", set()) | set(
            (d0.func.id if isinstance(d0, ast.Call) else d0.id) for d0 in fn.decorator_list[len(decs):] if isinstance(d0, (ast.Call, ast.Name))
            and isinstance(getattr(d0, "func", d0), ast.Name))
        cur.decorator_list = decs
        res = pre + [cur] + post
        for r in res:
            ast.copy_location(r, fn)
            ast.fix_missing_locations(r)
        return res


class _InlinePrivateProcedures(_InlinePrivateGenerators):
    """`self._take_in(section, position)` / `_add(registry, klass, handler)` as a statement, or `x = self._prepared(a)` where the helper ends in its
    only `return <expression>`: a small private helper of the same class, of a private base class defined in the same module, or of the module,
    is its body with the parameters bound to renamed locals (an early bare `return` becomes the else branch of its test).  Not for helpers
    the rules refer to by name (private_roles.json), recursive ones, generators, helpers with nested definitions, more than 25 statements, or
    a `return` anywhere but at the very end."""
    def __init__(self, tree):
        _InlinePrivateGenerators.__init__(self, tree)
        self.bases = {}
        for st in tree.body:
            if isinstance(st, ast.ClassDef):
                self.bases[st.name] = [b.id for b in st.bases if isinstance(b, ast.Name)]

    def visit_For(self, st):
        return ast.NodeTransformer.generic_visit(self, st)

    def _lookup(self, cls, name, seen=()):
        if cls in seen or cls not in self.cls_funcs:
            return None
        if name in self.cls_funcs[cls]:
            return self.cls_funcs[cls][name]
        for b in self.bases.get(cls, []):
            if b.startswith("_"):          # a private base class / mixin of this module
                g = self._lookup(b, name, tuple(seen) + (cls,))
                if g is not None:
                    return g
        return None

    def _target(self, call):
        f = call.func
        if isinstance(f, ast.Name) and f.id.startswith("_") and not f.id.startswith("__") and f.id in self.mod_funcs:
            g = self.mod_funcs[f.id]
            return (g, None) if not g.decorator_list else None
        if isinstance(f, ast.Attribute) and isinstance(f.value, ast.Name) and self.cls and self.fn is not None and self.fn.args.args \
                and f.value.id == self.fn.args.args[0].arg and f.attr.startswith("_") and not f.attr.startswith("__") \
                and not any(isinstance(d, ast.Name) and d.id in ("staticmethod", "classmethod") for d in self.fn.decorator_list):
            g = self._lookup(self.cls, f.attr)
            if g is None:
                return None
            if not g.decorator_list:
                return (g, f.value)
            if len(g.decorator_list) == 1 and isinstance(g.decorator_list[0], ast.Name) and g.decorator_list[0].id == "staticmethod":
                return (g, None)
        return None

    def visit_Expr(self, st):
        self.generic_visit(st)
        r = self._inline(st, st.value, None)
        return r if r is not None else st

    def visit_Assign(self, st):
        self.generic_visit(st)
        if len(st.targets) == 1 and isinstance(st.targets[0], ast.Name):
            r = self._inline(st, st.value, st.targets[0].id)
            return r if r is not None else st
        return st

    def visit_If(self, st):
        # `if self._settled(obj): return` where the helper answers True exactly where it has done the work: every `return True` of the helper
        # ends the caller as well, its final `return False` falls through to the rest of the caller
        self.generic_visit(st)
        if st.orelse or len(st.body) != 1 or not isinstance(st.body[0], ast.Return) or self.fn is None or not isinstance(st.test, ast.Call):
            return st
        rv = st.body[0].value
        if rv is not None and not (isinstance(rv, ast.Constant) and rv.value is None):
            return st
        call = st.test
        if any(isinstance(a, ast.Starred) for a in call.args) or call.keywords:
            return st
        got = self._target(call)
        if got is None:
            return st
        g, recv = got
        body = _strip_doc(g.body)
        if g is self.fn or _reviewed(g.name) or g.args.vararg or g.args.kwarg or g.args.kwonlyargs or g.args.posonlyargs or g.args.defaults or len(body) < 2:
            return st
        last = body[-1]
        if not (isinstance(last, ast.Return) and isinstance(last.value, ast.Constant) and last.value.value is False):
            return st

        def ok_stmt(b):
            if isinstance(b, ast.If) and not b.orelse and b.body and isinstance(b.body[-1], ast.Return):
                r = b.body[-1]
                return isinstance(r.value, ast.Constant) and r.value.value is True and \
                    not any(isinstance(y, ast.Return) for x in b.body[:-1] for y in ast.walk(x))
            return not any(isinstance(y, ast.Return) for y in ast.walk(b))
        if not all(ok_stmt(b) for b in body[:-1]):
            return st
        if any(isinstance(y, (ast.Yield, ast.YieldFrom, ast.FunctionDef, ast.Lambda, ast.ClassDef, ast.Global, ast.Nonlocal, ast.Raise, ast.Import, ast.ImportFrom))
               for b in body for y in ast.walk(b)):
            return st
        params = [a.arg for a in g.args.args]
        pos = params[1:] if recv is not None else params
        if len(call.args) != len(pos):
            return st
        self.counter += 1
        tag = "_%s%d__" % (g.name.strip("_"), self.counter)
        mapping = dict((n, tag + n) for n in _function_locals(g))
        if recv is not None:
            mapping[params[0]] = recv.id
        stored = set(y.id for b in body for y in ast.walk(b) if isinstance(y, ast.Name) and isinstance(y.ctx, (ast.Store, ast.Del)))
        binds, subst = [], {}
        for p0, a in zip(pos, call.args):
            if p0 not in stored and isinstance(a, (ast.Name, ast.Constant)):
                subst[mapping[p0]] = a
            else:
                binds.append(ast.Assign(targets=[ast.Name(id=mapping[p0], ctx=ast.Store())], value=a, lineno=st.lineno))
        out = list(binds)
        for b in body[:-1]:
            nb = _SubstExpr(subst).visit(_RenameLocals(mapping).visit(copy.deepcopy(b)))
            if isinstance(nb, ast.If) and nb.body and isinstance(nb.body[-1], ast.Return):
                nb.body[-1] = ast.Return(value=None)
            out.append(nb)
        _INLINED.append(g)
        for r in out:
            ast.copy_location(r, st)
            ast.fix_missing_locations(r)
        return out

    def _inline(self, st, call, result_to):
        if not isinstance(call, ast.Call) or self.fn is None or self.depth > 2:
            return None
        if any(isinstance(a, ast.Starred) for a in call.args) or any(k.arg is None for k in call.keywords):
            return None
        got = self._target(call)
        if got is None:
            return None
        g, recv = got
        if g is self.fn or _reviewed(g.name) or g.args.vararg or g.args.kwarg or g.args.kwonlyargs or g.args.posonlyargs:
            return None
        body = _strip_doc(g.body)
        ret_expr = None
        if result_to is not None:
            if not body or not isinstance(body[-1], ast.Return) or body[-1].value is None:
                return None
            ret_expr = body[-1].value
            body = body[:-1]
        elif body and isinstance(body[-1], ast.Return) and body[-1].value is None:
            body = body[:-1]
        body = _early_return_as_else(body)
        if any(isinstance(y, (ast.Yield, ast.YieldFrom, ast.Return, ast.FunctionDef, ast.Lambda, ast.ClassDef, ast.Global, ast.Nonlocal, ast.Await,
                              ast.Import, ast.ImportFrom, ast.Raise))
               for b in body for y in ast.walk(b)):
            return None          # (a helper that imports late or that refuses stays a call: it is judged by its summary / contract)
        if ret_expr is not None and any(isinstance(y, (ast.Yield, ast.YieldFrom, ast.Lambda, ast.Await)) for y in ast.walk(ret_expr)):
            return None
        if any(isinstance(y, ast.Call) and (getattr(y.func, "attr", None) == g.name or getattr(y.func, "id", None) == g.name)
               for b in body + ([ast.Expr(value=ret_expr)] if ret_expr is not None else []) for y in ast.walk(b)):
            return None
        if len([y for b in body for y in ast.walk(b) if isinstance(y, ast.stmt)]) > 25:
            return None
        params = [a.arg for a in g.args.args]
        bound = recv is not None
        pos = params[1:] if bound else params
        defaults = dict(zip(params[len(params) - len(g.args.defaults):], g.args.defaults))
        kw = dict((k.arg, k.value) for k in call.keywords)
        if len(call.args) > len(pos) or any(k not in pos for k in kw):
            return None
        self.counter += 1
        tag = "_%s%d__" % (g.name.strip("_"), self.counter)
        mapping = dict((n, tag + n) for n in _function_locals(g))
        if bound:
            mapping[params[0]] = recv.id
        binds, subst = [], {}
        stored = set(y.id for b in body for y in ast.walk(b) if isinstance(y, ast.Name) and isinstance(y.ctx, (ast.Store, ast.Del)))
        for i, p0 in enumerate(pos):
            if i < len(call.args):
                if p0 in kw:
                    return None
                v = call.args[i]
            elif p0 in kw:
                v = kw[p0]
            elif p0 in defaults:
                v = copy.deepcopy(defaults[p0])
            else:
                return None
            attrs_stored = set(y.attr for b in body for y in ast.walk(b) if isinstance(y, ast.Attribute) and isinstance(y.ctx, (ast.Store, ast.Del)))
            n_reads = len([y for b in body + ([ast.Expr(value=ret_expr)] if ret_expr is not None else []) for y in ast.walk(b)
                           if isinstance(y, ast.Name) and y.id == p0 and isinstance(y.ctx, ast.Load)])
            is_partial = isinstance(v, ast.Call) and ((isinstance(v.func, ast.Name) and v.func.id == "partial") or
                                                       (isinstance(v.func, ast.Attribute) and v.func.attr == "partial")) \
                and all(_simple(a0) for a0 in v.args) and not v.keywords
            if p0 not in stored and (isinstance(v, (ast.Name, ast.Constant)) or
                                     (_simple(v) and not (set(y.attr for y in ast.walk(v) if isinstance(y, ast.Attribute)) & attrs_stored))):
                subst[mapping[p0]] = v           # the same value wherever the helper reads the parameter
            elif p0 not in stored and n_reads == 1 and (isinstance(v, ast.Lambda) or is_partial):
                subst[mapping[p0]] = v           # behaviour handed in and used once: put in where it is applied
            else:
                binds.append(ast.Assign(targets=[ast.Name(id=mapping[p0], ctx=ast.Store())], value=v, lineno=st.lineno))
        new_body = [_SubstExpr(subst).visit(_RenameLocals(mapping).visit(copy.deepcopy(b))) for b in body]
        res = binds + new_body
        if ret_expr is not None:
            res.append(ast.Assign(targets=[ast.Name(id=result_to, ctx=ast.Store())],
                                  value=_SubstExpr(subst).visit(_RenameLocals(mapping).visit(copy.deepcopy(ret_expr))), lineno=st.lineno))
        _INLINED.append(g)
        for r in res:
            ast.copy_location(r, st)
            ast.fix_missing_locations(r)
        self.depth += 1
        try:
            out = []
            for r in res:
                v = self.visit(r)
                out.extend(v if isinstance(v, list) else [v])
        finally:
            self.depth -= 1
        return out


def adopt_private_imports(tree, modname, sibling_source):
    """`from .terminology import _DeferredLoadingMixin, _cache_location` - private functions / classes of a sibling module that this module
    imports by name are copied into this module (together with the imports and private definitions they need), so that the per module
    passes below read a shared private helper the same way wherever it is used.  The copy is made only when every global name the
    definition reads can be bound here exactly as it is bound there: by the same import statement, by a copy of another private
    definition, or - for a public name of the sibling - by `from <sibling> import <name>`; a name this module binds differently stops it.
    sibling_source(dotted module name) -> source text or None."""
    pkg = modname.rsplit(".", 1)[0] if "." in modname else modname
    here = {}
    for st in tree.body:
        if isinstance(st, (ast.FunctionDef, ast.ClassDef)):
            here[st.name] = ("def", st)
        elif isinstance(st, (ast.Import, ast.ImportFrom)):
            for a in st.names:
                here[(a.asname or a.name).split(".")[0]] = ("import", ast.dump(st) if isinstance(st, ast.Import) else (st.module, st.level, a.name, a.asname))
        elif isinstance(st, ast.Assign):
            for t in st.targets:
                if isinstance(t, ast.Name):
                    here[t.id] = ("assign", st)
    out_body = []
    changed = False
    for st in tree.body:
        out_body.append(st)
        if not (isinstance(st, ast.ImportFrom) and st.module and st.level in (0, 1)):
            continue
        priv = [a for a in st.names if a.name.startswith("_") and not a.name.startswith("__") and a.asname in (None, a.name)]
        if not priv:
            continue
        dotted = ("%s.%s" % (pkg, st.module)) if st.level == 1 else st.module
        text = sibling_source(dotted)
        if text is None:
            continue
        try:
            sib = ast.parse(text)
        except SyntaxError:
            continue
        there = {}
        for s2 in sib.body:
            if isinstance(s2, (ast.FunctionDef, ast.ClassDef)):
                there[s2.name] = ("def", s2)
            elif isinstance(s2, (ast.Import, ast.ImportFrom)):
                for a in s2.names:
                    there[(a.asname or a.name).split(".")[0]] = ("import", s2, a)
            elif isinstance(s2, ast.Assign):
                for t in s2.targets:
                    if isinstance(t, ast.Name):
                        there[t.id] = ("assign", s2)
            elif isinstance(s2, ast.Try):
                for y in ast.walk(s2):
                    if isinstance(y, (ast.Import, ast.ImportFrom)):
                        for a in y.names:
                            there.setdefault((a.asname or a.name).split(".")[0], ("tryimport", y, a))
        import builtins as _b
        adopt, imports, ok = [], [], True
        todo = [a.name for a in priv]
        seen = set()
        while todo and ok:
            n = todo.pop()
            if n in seen:
                continue
            seen.add(n)
            kind = there.get(n)
            if kind is None or kind[0] != "def":
                ok = False
                break
            d = kind[1]
            adopt.append(d)
            bound = set()
            for y in ast.walk(d):
                if isinstance(y, ast.Name) and isinstance(y.ctx, (ast.Store, ast.Del)):
                    bound.add(y.id)
                elif isinstance(y, ast.arg):
                    bound.add(y.arg)
                elif isinstance(y, ast.ExceptHandler) and y.name:
                    bound.add(y.name)
            for y in ast.walk(d):
                if not (isinstance(y, ast.Name) and isinstance(y.ctx, ast.Load)) or y.id in bound or hasattr(_b, y.id) or y.id == d.name:
                    continue
                src = there.get(y.id)
                mine = here.get(y.id)
                if src is None:
                    ok = False
                    break
                if src[0] == "def" and y.id.startswith("_"):
                    if mine is not None and y.id not in [a.name for a in priv]:
                        ok = False
                        break
                    todo.append(y.id)
                elif src[0] in ("import", "tryimport"):
                    a = src[2]
                    key = ast.dump(src[1]) if isinstance(src[1], ast.Import) else (src[1].module, src[1].level, a.name, a.asname)
                    if mine is None:
                        one = copy.deepcopy(src[1])
                        one.names = [copy.deepcopy(a)]
                        if isinstance(one, ast.ImportFrom) and one.level == 1 and st.level == 0:
                            ok = False
                            break
                        imports.append((y.id, one))
                    elif mine[0] != "import" or (src[0] == "import" and isinstance(src[1], ast.ImportFrom) and mine[1] != key):
                        ok = False
                        break
                else:
                    # a public definition / constant of the sibling: visible here as `from <sibling> import <name>`
                    if mine is None:
                        imports.append((y.id, ast.ImportFrom(module=st.module, names=[ast.alias(name=y.id, asname=None)], level=st.level)))
                    elif not (mine[0] == "import" and isinstance(mine[1], tuple) and mine[1][0] == st.module and mine[1][2] == y.id):
                        ok = False
                        break
            if not ok:
                break
        if not ok or not adopt:
            continue
        changed = True
        keep = [a for a in st.names if a not in priv]
        if keep:
            st.names = keep
        else:
            out_body.pop()
        done = set()
        for nm, imp in imports:
            if nm in done:
                continue
            done.add(nm)
            ast.copy_location(imp, st)
            out_body.append(imp)
            here[nm] = ("import", ast.dump(imp) if isinstance(imp, ast.Import) else (imp.module, imp.level, imp.names[0].name, imp.names[0].asname))
        for d in sorted(adopt, key=lambda x: x.lineno):
            c = copy.deepcopy(d)
            out_body.append(c)
            here[c.name] = ("def", c)
    if changed:
        tree.body = out_body
        ast.fix_missing_locations(tree)
    return tree


_INLINED = []
_REVIEWED = []
_PROCEDURES = [__import__('os').environ.get('ODMLSA_PROCEDURES', '1') == '1']


def _reviewed(name):
    """private helpers of the pinned tree that the rules refer to by name (tables/private_roles.json): they stay functions"""
    if not _REVIEWED:
        import json
        import os
        path = os.path.join(os.path.dirname(os.path.abspath(__file__)), "tables", "private_roles.json")
        names = set()
        try:
            for owners in json.load(open(path)).values():
                for d in owners.values():
                    if isinstance(d, dict):
                        names |= set(d)
        except (OSError, ValueError):
            pass
        _REVIEWED.append(names)
    return name in _REVIEWED[0]


def _drop_dead_private_methods(tree, inlined):
    """a private method that was put in at its call sites and is mentioned nowhere else in the module is no longer part of the program the
    rules read (its stores would otherwise be judged as if somebody could still call it out of context)"""
    for c in [n for n in ast.walk(tree) if isinstance(n, ast.ClassDef)]:
        for g in list(c.body):
            if not isinstance(g, ast.FunctionDef) or not any(g is x for x in inlined) or not g.name.startswith("_") or g.name.startswith("__"):
                continue
            inside = set(id(y) for y in ast.walk(g))
            used = any((isinstance(y, ast.Attribute) and y.attr == g.name) or (isinstance(y, ast.Name) and y.id == g.name) or
                       (isinstance(y, ast.Constant) and y.value == g.name)
                       for y in ast.walk(tree) if id(y) not in inside)
            if not used:
                c.body.remove(g)
                if not c.body:
                    c.body.append(ast.Pass())
    return tree


def normalise(tree, modname=None, sibling_source=None):
    del _INLINED[:]
    if modname is not None and sibling_source is not None:
        tree = adopt_private_imports(tree, modname, sibling_source)
    tree = _lift_closed_local_functions(tree)
    inl = _InlinePrivateConstants(tree)
    if inl.consts:
        tree = inl.visit(tree)
    tree = _ExpandPrivateDecorators(tree).run(tree)
    tree = _InlineExpressionHelpers(tree).visit(tree)
    tree = _InlineContextManagers(tree).visit(tree)
    tree = _InlinePrivateGenerators(tree).visit(tree)
    tree = _InlineTableDrivenProcedures(tree).visit(tree)
    if _PROCEDURES[0]:
        tree = _InlinePrivateProcedures(tree).visit(tree)
    tree = _drop_dead_private_methods(tree, list(_INLINED))
    tree = _SpecialiseSelectors().visit(tree)
    ast.fix_missing_locations(tree)
    tree = Normaliser(tree).visit(tree)
    ast.fix_missing_locations(tree)
    # unrolling a loop over a table of functions makes further helper calls direct (`comparable(x)` -> `_as_it_is(x)`): once more
    before = len(_INLINED)
    tree = _InlineExpressionHelpers(tree).visit(tree)
    if len(_INLINED) != before:
        ast.fix_missing_locations(tree)
        tree = Normaliser(tree).visit(tree)
        ast.fix_missing_locations(tree)
    return tree
