"""Verdict protocol, known findings, evidence files.

exit 0  every obligation discharged (known findings printed as KNOWN-FINDING lines)
exit 1  VIOLATION property=<id> replay=<path>   - an obligation failed at a construct
        that /verif/known_findings.json does not list
exit 2  ANALYSIS-ERROR                           - the checker could not do its job
"""
import json
import os
import sys
import time

VERIF = os.path.dirname(os.path.dirname(os.path.abspath(__file__)))
EVIDENCE_DIR = os.path.join(VERIF, "evidence")
REPLAY_DIR = os.path.join(EVIDENCE_DIR, "replay")
KNOWN_FILE = os.path.join(VERIF, "known_findings.json")


def load_known():
    if not os.path.exists(KNOWN_FILE):
        return []
    with open(KNOWN_FILE) as fobj:
        return json.load(fobj)["findings"]


def _same_call_narrower(known_key, key):
    """the receiver label `{A|B}` of a failing call lists the kinds the kind inference finds for the receiver; the same call seen with fewer
    kinds (`{Property}.merge` for the recorded `{Property|Section}.merge`) is the same recorded finding"""
    import re as _re
    ma, mb = _re.search(r"\{([^{}]*)\}", known_key), _re.search(r"\{([^{}]*)\}", key)
    if not ma or not mb:
        return False
    if known_key[:ma.start()] != key[:mb.start()] or known_key[ma.end():] != key[mb.end():]:
        return False
    return set(mb.group(1).split("|")) <= set(ma.group(1).split("|"))


class Report(object):
    def __init__(self, pid, tier="quick", seed=0):
        self.pid = pid
        self.tier = tier
        self.seed = seed
        self.t0 = time.time()
        self.items = []          # every obligation instance
        self.notes = []
        self.assumptions = []
        self.decided = []
        self.not_decided = []
        self.rules = {}          # rule id -> description
        self.extra = {}          # extra coverage keys
        self.trusted = []        # trusted contracts / tables printed every run
        self.analysed = {"functions": set(), "paths": 0, "call_sites": 0, "unresolved": 0}
        self.known = [k for k in load_known() if k.get("property") == pid]
        self.selftest = None

    # --------------------------------------------------------------- recording
    def rule(self, rid, text):
        self.rules[rid] = text

    def ok(self, rule, instance, detail="", where=""):
        self.items.append({"rule": rule, "instance": instance, "status": "ok",
                           "detail": detail, "where": where})

    def fail(self, rule, key, detail, where="", witness="", signature=None):
        """an obligation failed; key identifies rule + construct (no line numbers).
        signature (optional): extra structured description kept in the evidence."""
        full_key = "%s|%s" % (rule, key)
        status = "violation"
        for k in self.known:
            if k.get("status", "known") != "known":
                continue
            if k.get("key") == full_key or _same_call_narrower(k.get("key", ""), full_key):
                status = "known"
                k["_matched"] = True
        item = {"rule": rule, "instance": key, "key": full_key, "status": status,
                "detail": detail, "where": where, "witness": witness}
        if signature is not None:
            item["signature"] = signature
        self.items.append(item)

    def check(self, cond, rule, key, detail_ok, detail_fail=None, where="", witness=""):
        if cond:
            self.ok(rule, key, detail_ok, where)
        else:
            self.fail(rule, key, detail_fail or detail_ok, where, witness)
        return cond

    def note(self, text):
        self.notes.append(text)

    def assume(self, text):
        if text not in self.assumptions:
            self.assumptions.append(text)

    def saw_function(self, f):
        self.analysed["functions"].add(getattr(f, "qualname", str(f)))

    def floor(self, rule, count, minimum, what):
        """a rule that matches fewer sites than hand-confirmed is a broken check."""
        from .model import AnalysisError
        if count < minimum:
            raise AnalysisError("rule %s matched %d %s, expected at least %d - "
                                "an anchor vanished or the rule went blind" % (rule, count, what, minimum))

    # ----------------------------------------------------------------- finish
    def finish(self):
        wall = time.time() - self.t0
        viol = [i for i in self.items if i["status"] == "violation"]
        known = [i for i in self.items if i["status"] == "known"]
        oks = [i for i in self.items if i["status"] == "ok"]
        lines = []
        replay_paths = []
        if viol:
            os.makedirs(REPLAY_DIR, exist_ok=True)
        for n, v in enumerate(viol):
            path = os.path.join(REPLAY_DIR, "%s-%d.json" % (self.pid, n))
            with open(path, "w") as fobj:
                json.dump({"property": self.pid, "rule": v["rule"], "key": v["key"],
                           "rule_text": self.rules.get(v["rule"], ""),
                           "where": v["where"], "detail": v["detail"], "witness": v.get("witness", ""),
                           "rerun": "python3 -m odmlsa.check %s --tier %s" % (self.pid, self.tier)},
                          fobj, indent=1)
            replay_paths.append(path)
        seen_known = set()
        for k in known:
            if k["key"] in seen_known:
                continue
            seen_known.add(k["key"])
            lines.append("KNOWN-FINDING: property=%s %s @ %s: %s" % (self.pid, k["key"], k["where"], k["detail"]))
        for v, path in zip(viol, replay_paths):
            lines.append("  violation: [%s] %s @ %s\n      %s" % (v["rule"], v["instance"], v["where"], v["detail"]))
            lines.append("VIOLATION property=%s replay=%s" % (self.pid, path))
        # stale known findings are reported as notes (never an error, never added)
        for k in self.known:
            if k.get("status", "known") == "known" and not k.get("_matched"):
                self.notes.append("known finding not reproduced by this run (fixed or construct changed): %s" % k["key"])
        distinct = len(set((i["rule"], i["instance"]) for i in self.items))
        samples = []
        per_rule = {}
        for i in self.items:
            per_rule.setdefault(i["rule"], []).append(i)
        for rule, its in sorted(per_rule.items()):
            for i in its[:3]:
                samples.append({"rule": rule, "instance": i["instance"], "status": i["status"],
                                "where": i["where"], "detail": i["detail"][:300]})
        named = set(d.split()[0] for d in self.decided)
        also = ["%s %s" % (r, " ".join(t.split())[:220]) for r, t in sorted(self.rules.items()) if r not in named and r in per_rule]
        explanation = ("Static analysis of the working tree (ast only, no import of odml). "
                       "Decided clauses: " + "; ".join(list(self.decided) + also) + ". "
                       "NOT decided by this check: " + "; ".join(self.not_decided) + ".")
        cov = {
            "explanation": explanation,
            "obligations": len(self.items),
            "discharged": len(oks),
            "known_findings_matched": len(seen_known),
            "violations_new": len(viol),
            "evaluations": max(1, len(self.items)),
            "distinct_nontrivial": distinct,
            "rule": "one obligation per (rule, construct) pair matched in the parsed source; "
                    "distinct = distinct (rule, instance) pairs",
            "samples": samples,
            "rules": self.rules,
            "per_rule_counts": {r: {"ok": sum(1 for i in its if i["status"] == "ok"),
                                    "known": sum(1 for i in its if i["status"] == "known"),
                                    "violation": sum(1 for i in its if i["status"] == "violation")}
                                for r, its in per_rule.items()},
            "functions_analysed": len(self.analysed["functions"]),
            "function_list": sorted(self.analysed["functions"])[:400],
            "paths_enumerated": self.analysed["paths"],
            "call_sites_resolved": self.analysed["call_sites"],
            "call_sites_unresolved": self.analysed["unresolved"],
            "trusted_contracts": self.trusted,
            "checker_cmd": "python3 -m odmlsa.check %s --tier %s" % (self.pid, self.tier),
            "trusted_base": ["python ast parser", "odmlsa engine (model, cfg, kinds, summaries)",
                             "reviewed tables under odmlsa/tables.py"],
            "notes": self.notes,
            "exhaustive": False,
        }
        cov.update(self.extra)
        if self.selftest is not None:
            cov["selftest"] = self.selftest
        ev = {
            "property_id": self.pid,
            "tier": self.tier,
            "seed": self.seed,
            "level": "other",
            "coverage": cov,
            "assumptions": self.assumptions,
            "wall_s": round(wall, 3),
            "violations": len(viol),
        }
        if not os.environ.get("ODMLSA_NOEVIDENCE"):
            os.makedirs(EVIDENCE_DIR, exist_ok=True)
            with open(os.path.join(EVIDENCE_DIR, "%s.json" % self.pid), "w") as fobj:
                json.dump(ev, fobj, indent=1, sort_keys=True, default=str)
        print("%s [%s]: %d obligations, %d discharged, %d known findings, %d new violations, "
              "%d functions analysed, %.2fs" % (self.pid, self.tier, len(self.items), len(oks),
                                                len(seen_known), len(viol),
                                                len(self.analysed["functions"]), wall))
        for ln in lines:
            print(ln)
        for nt in self.notes:
            print("  note: %s" % nt)
        sys.stdout.flush()
        return 1 if viol else 0


def import_verdicts(prog, rep, dep_pid, rules, as_rule, why):
    """A property that rests on an invariant another property establishes reports a change that breaks the invariant as well:
    the rules `rules` of check `dep_pid` are run on the same program and every NEW violation (not one of dep_pid's recorded
    findings) is lifted into this report under `as_rule`.  The sub-run is cached on the Program object."""
    import importlib
    cache = prog.__dict__.setdefault("_subreports", {})
    busy = prog.__dict__.setdefault("_subreports_busy", [])
    partial = prog.__dict__.setdefault("_subreports_partial", set())
    if rep.pid not in busy:
        busy.append(rep.pid)
    if dep_pid in busy:
        # mutual dependency (C05 <- C11 <- C05): the check at the other end of the cycle is the one that is running and decides these
        # rules itself; nothing to lift here
        partial.add(rep.pid)
        rep.rule(as_rule, "%s (rules %s of %s: decided by the importing run of %s itself, mutual dependency)" % (why, ", ".join(rules), dep_pid, dep_pid))
        return
    if dep_pid not in cache:
        sub = Report(dep_pid, rep.tier, rep.seed)
        err = None
        busy.append(dep_pid)
        try:
            importlib.import_module("odmlsa.checks.%s" % dep_pid.lower()).run(prog, sub)
        except Exception as exc:           # the dependency stopped early: what it established so far still counts
            err = exc
        finally:
            busy.remove(dep_pid)
        if dep_pid not in partial:
            cache[dep_pid] = (sub, err)      # a sub-run that left out its part of a cycle is not reused by other importers
        partial.discard(dep_pid)
    else:
        sub, err = cache[dep_pid]
    rep.rule(as_rule, "%s (rules %s of %s, run on the same tree; recorded findings of %s are not repeated here)" % (why, ", ".join(rules), dep_pid, dep_pid))
    lifted = 0
    for i in sub.items:
        if i["status"] == "violation" and i["rule"] in rules:
            lifted += 1
            rep.fail(as_rule, "%s:%s" % (dep_pid, i["key"]), "[%s %s] %s" % (dep_pid, i["rule"], i.get("detail", "")), i.get("where", ""),
                     witness=i.get("witness", ""))
    decided = set(i["rule"] for i in sub.items if i["rule"] in rules)
    if err is not None and not lifted and (not all(r in decided for r in rules) or any(("rule %s " % r) in str(err) for r in rules)):
        # the dependency stopped before it got to (all of) the imported rules; when it stopped later, over something else, what it
        # established about these rules stands
        from .model import AnalysisError
        raise AnalysisError("%s (imported by %s) stopped: %s" % (dep_pid, rep.pid, str(err)[:160]))
    if not lifted:
        n = sum(1 for i in sub.items if i["rule"] in rules)
        rep.ok(as_rule, "%s: %s hold" % (dep_pid, "/".join(rules)), "%d obligations of %s re-checked" % (n, dep_pid), "")
