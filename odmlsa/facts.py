"""Facts extracted from classes: constructor keywords, readable attributes,
instance fields, trivial getters."""
import ast

from .model import ClassInfo, unparse, walk_no_nested

MODEL_CLASSES = {"Document": "BaseDocument", "Section": "BaseSection", "Property": "BaseProperty"}


def init_of(cls):
    return cls.lookup_method("__init__")


def ctor_keywords(cls):
    """keyword parameters accepted by the constructor (None = accepts **kwargs)."""
    f = init_of(cls)
    if f is None:
        return set()
    if f.kwarg:
        return None
    return set(f.params[1:]) | set(f.kwonly)


def instance_fields(cls):
    """names X such that some method along the MRO stores self.X = ..."""
    out = {}
    for c in cls.mro:
        if not isinstance(c, ClassInfo):
            continue
        funcs = list(c.methods.values()) + [f for p in c.props.values() for f in p.values()]
        for f in funcs:
            if not f.params:
                continue
            me = f.params[0]
            for n in walk_no_nested(f.node):
                targets = []
                if isinstance(n, ast.Assign):
                    targets = n.targets
                elif isinstance(n, (ast.AugAssign, ast.AnnAssign)):
                    targets = [n.target]
                for t in targets:
                    for tt in (t.elts if isinstance(t, (ast.Tuple, ast.List)) else [t]):
                        if isinstance(tt, ast.Attribute) and isinstance(tt.value, ast.Name) \
                                and tt.value.id == me:
                            out.setdefault(tt.attr, []).append((f, n))
    return out


def readable_attrs(cls):
    """attribute names readable on an instance: properties, class attributes,
    methods and instance fields set in __init__ along the MRO."""
    out = set()
    for c in cls.mro:
        if isinstance(c, ClassInfo):
            out |= set(c.props) | set(c.attrs) | set(c.methods)
    init_fields = set()
    for c in cls.mro:
        if isinstance(c, ClassInfo) and "__init__" in c.methods:
            f = c.methods["__init__"]
            me = f.params[0]
            for n in walk_no_nested(f.node):
                if isinstance(n, ast.Assign):
                    for t in n.targets:
                        if isinstance(t, ast.Attribute) and isinstance(t.value, ast.Name) and t.value.id == me:
                            init_fields.add(t.attr)
    return out | init_fields


def trivial_getter_field(f):
    """'_x' if the getter body is `return self._x`; ('copy', '_x') for
    `return list(self._x)`; ('const', value) for `return <constant>`; else None.
    Docstrings are ignored."""
    body = [s for s in f.node.body
            if not (isinstance(s, ast.Expr) and isinstance(s.value, ast.Constant))]
    if len(body) != 1 or not isinstance(body[0], ast.Return):
        return None
    v = body[0].value
    me = f.params[0] if f.params else "self"
    if v is None:
        return ("const", None)
    if isinstance(v, ast.Constant):
        return ("const", v.value)
    if isinstance(v, ast.Attribute) and isinstance(v.value, ast.Name) and v.value.id == me:
        return v.attr
    if isinstance(v, ast.Call) and isinstance(v.func, ast.Name) and v.func.id == "list" and len(v.args) == 1:
        a = v.args[0]
        if isinstance(a, ast.Attribute) and isinstance(a.value, ast.Name) and a.value.id == me:
            return ("copy", a.attr)
    return None


def getter_field(cls, prop):
    """backing field of property `prop` on cls if the getter is trivial
    (follows one level of aliasing: oid -> id -> _id)."""
    seen = set()
    cur = prop
    while cur not in seen:
        seen.add(cur)
        g = cls.lookup_prop(cur, "getter")
        if g is None:
            return None
        t = trivial_getter_field(g)
        if isinstance(t, str):
            if cls.has_prop(t):
                cur = t
                continue
            return t
        return None
    return None
