"""Small intraprocedural dataflow helpers on the statement CFG."""
import ast

from .astutil import stmt_targets
from .model import unparse


def node_defs(node):
    """local names (re)bound by this CFG node."""
    out = set()
    k = node.kind
    st = node.ast
    if k == "stmt":
        for t in stmt_targets(st):
            if isinstance(t, ast.Name):
                out.add(t.id)
            elif isinstance(t, ast.Starred) and isinstance(t.value, ast.Name):
                out.add(t.value.id)
        if isinstance(st, (ast.Import, ast.ImportFrom)):
            for a in st.names:
                out.add((a.asname or a.name).split(".")[0])
        if isinstance(st, (ast.FunctionDef, ast.ClassDef)):
            out.add(st.name)
        # walrus
        for n in ast.walk(st):
            if isinstance(n, ast.NamedExpr) and isinstance(n.target, ast.Name):
                out.add(n.target.id)
    elif k == "for":
        for t in stmt_targets(st):
            for x in ast.walk(t):
                if isinstance(x, ast.Name):
                    out.add(x.id)
    elif k == "with":
        v = node.info["item"].optional_vars
        if v is not None:
            for x in ast.walk(v):
                if isinstance(x, ast.Name):
                    out.add(x.id)
    elif k == "handler":
        if node.info.get("name"):
            out.add(node.info["name"])
    return out


def node_uses(node):
    """local names read by this CFG node (Load context), excluding nested blocks."""
    out = set()
    for r in node.expr_roots():
        for n in ast.walk(r):
            if isinstance(n, ast.Name) and isinstance(n.ctx, ast.Load):
                out.add(n.id)
        # AugAssign target is also read
        if isinstance(r, ast.AugAssign) and isinstance(r.target, ast.Name):
            out.add(r.target.id)
    return out


def reaching_defs(g, node, var):
    """CFG nodes defining `var` whose definition may reach the *entry* of `node`.
    The pseudo-definition 'entry' (parameter / undefined) is returned as g.entry."""
    out = set()
    seen = set()
    stack = [p for _, p in node.pred]
    while stack:
        n = stack.pop()
        if n.id in seen:
            continue
        seen.add(n.id)
        if n.kind == "entry":
            out.add(n)
            continue
        if var in node_defs(n):
            out.add(n)
            continue
        stack.extend(p for _, p in n.pred)
    return out


def def_value(node, var):
    """value expression assigned to var at a defining stmt node (None if not a plain assignment)."""
    st = node.ast
    if node.kind == "stmt" and isinstance(st, ast.Assign):
        for t in st.targets:
            if isinstance(t, ast.Name) and t.id == var:
                return st.value
    if node.kind == "stmt" and isinstance(st, ast.AnnAssign) and isinstance(st.target, ast.Name) \
            and st.target.id == var:
        return st.value
    return None


def find_nodes(g, pred):
    return [n for n in g.nodes if pred(n)]


def node_of_ast(g, sub):
    """the CFG node whose evaluated expressions contain the AST node `sub`."""
    for n in g.nodes:
        for r in n.expr_roots():
            for x in ast.walk(r):
                if x is sub:
                    return n
    return None
