"""Small intraprocedural dataflow helpers on the statement CFG."""
import ast

from .astutil import stmt_targets
from .model import unparse


def node_defs(node):
    """local names (re)bound by this CFG node (memoised on the node)."""
    cached = node.info.get("_defs") if isinstance(node.info, dict) else None
    if cached is not None:
        return cached
    out = _node_defs(node)
    if isinstance(node.info, dict):
        node.info["_defs"] = out
    return out


def _node_defs(node):
    out = set()
    k = node.kind
    st = node.ast
    if k == "stmt":
        for t in stmt_targets(st):
            if isinstance(t, ast.Name):
                out.add(t.id)
            elif isinstance(t, ast.Starred) and isinstance(t.value, ast.Name):
                out.add(t.value.id)
        if isinstance(st, (ast.Import, ast.ImportFrom)):
            for a in st.names:
                out.add((a.asname or a.name).split(".")[0])
        if isinstance(st, (ast.FunctionDef, ast.ClassDef)):
            out.add(st.name)
        # walrus
        for n in ast.walk(st):
            if isinstance(n, ast.NamedExpr) and isinstance(n.target, ast.Name):
                out.add(n.target.id)
    elif k == "for":
        for t in stmt_targets(st):
            for x in ast.walk(t):
                if isinstance(x, ast.Name):
                    out.add(x.id)
    elif k == "with":
        v = node.info["item"].optional_vars
        if v is not None:
            for x in ast.walk(v):
                if isinstance(x, ast.Name):
                    out.add(x.id)
    elif k == "handler":
        if node.info.get("name"):
            out.add(node.info["name"])
    return out


def node_uses(node):
    """local names read by this CFG node (Load context), excluding nested blocks."""
    out = set()
    for r in node.expr_roots():
        for n in ast.walk(r):
            if isinstance(n, ast.Name) and isinstance(n.ctx, ast.Load):
                out.add(n.id)
        # AugAssign target is also read
        if isinstance(r, ast.AugAssign) and isinstance(r.target, ast.Name):
            out.add(r.target.id)
    return out


def reaching_defs(g, node, var):
    """CFG nodes defining `var` whose definition may reach the *entry* of `node`.
    The pseudo-definition 'entry' (parameter / undefined) is returned as g.entry."""
    cache = g.__dict__.setdefault("_rd_cache", {})
    key = (node.id, var)
    if key in cache:
        return set(cache[key])
    out = _reaching_defs(g, node, var)
    cache[key] = frozenset(out)
    return out


def _reaching_defs(g, node, var):
    out = set()
    seen = set()
    stack = [p for _, p in node.pred]
    while stack:
        n = stack.pop()
        if n.id in seen:
            continue
        seen.add(n.id)
        if n.kind == "entry":
            out.add(n)
            continue
        if var in node_defs(n):
            out.add(n)
            continue
        stack.extend(p for _, p in n.pred)
    return out


def def_value(node, var):
    """value expression assigned to var at a defining stmt node (None if not a plain assignment)."""
    st = node.ast
    if node.kind == "stmt" and isinstance(st, ast.Assign):
        for t in st.targets:
            if isinstance(t, ast.Name) and t.id == var:
                return st.value
    if node.kind == "stmt" and isinstance(st, ast.AnnAssign) and isinstance(st.target, ast.Name) \
            and st.target.id == var:
        return st.value
    return None


def find_nodes(g, pred):
    return [n for n in g.nodes if pred(n)]


def node_of_ast(g, sub):
    """the CFG node whose evaluated expressions contain the AST node `sub`."""
    for n in g.nodes:
        for r in n.expr_roots():
            for x in ast.walk(r):
                if x is sub:
                    return n
    return None


def sources_of(prog, f, expr, node=None, depth=0, _cfgs=None):
    """value expressions an expression may stand for, following single assignment style locals through reaching
    definitions and the parameters of *private* same-class helpers to the arguments at their call sites.
    returns [(FuncInfo, expr_ast)] ; an unresolvable name is returned as itself."""
    from .cfg import build_cfg
    cfgs = _cfgs if _cfgs is not None else {}
    if depth > 5 or not isinstance(expr, ast.Name):
        return [(f, expr)]
    if f.qualname not in cfgs:
        cfgs[f.qualname] = build_cfg(f)
    g = cfgs[f.qualname]
    if node is None:
        node = node_of_ast(g, expr)
    if node is None:
        return [(f, expr)]
    out = []
    for d in reaching_defs(g, node, expr.id):
        if d.kind == "entry":
            if expr.id in f.params and f.name.startswith("_") and not f.name.startswith("__") and f.cls is not None:
                idx = f.params.index(expr.id)
                found = False
                for m in f.cls.methods.values():
                    if m is f or not m.params:
                        continue
                    for c in ast.walk(m.node):
                        if isinstance(c, ast.Call) and isinstance(c.func, ast.Attribute) and c.func.attr == f.name \
                                and isinstance(c.func.value, ast.Name) and c.func.value.id == m.params[0]:
                            pos = idx - (1 if f.has_self else 0)
                            arg = None
                            if 0 <= pos < len(c.args):
                                arg = c.args[pos]
                            for kw0 in c.keywords:
                                if kw0.arg == expr.id:
                                    arg = kw0.value
                            if arg is not None:
                                found = True
                                out += sources_of(prog, m, arg, None, depth + 1, cfgs)
                if not found:
                    out.append((f, expr))
            else:
                out.append((f, expr))
            continue
        v = def_value(d, expr.id)
        if v is None:
            out.append((f, expr))
        elif isinstance(v, ast.Name):
            out += sources_of(prog, f, v, d, depth + 1, cfgs)
        else:
            out.append((f, v))
    return out


def private_closure(f, depth=3):
    """f plus the private methods of its class (or private functions of its module) it calls through self / by name, transitively."""
    seen = [f]
    todo = [(f, 0)]
    while todo:
        cur, d = todo.pop()
        if d >= depth:
            continue
        for c in ast.walk(cur.node):
            if not isinstance(c, ast.Call):
                continue
            tgt = None
            if isinstance(c.func, ast.Attribute) and isinstance(c.func.value, ast.Name) and cur.params and c.func.value.id == cur.params[0] \
                    and cur.cls is not None and c.func.attr.startswith("_") and not c.func.attr.startswith("__"):
                tgt = cur.cls.lookup_method(c.func.attr)
            elif isinstance(c.func, ast.Name) and c.func.id.startswith("_") and c.func.id in cur.module.functions:
                tgt = cur.module.functions[c.func.id]
            elif isinstance(c.func, ast.Attribute) and isinstance(c.func.value, ast.Name) and cur.cls is not None \
                    and c.func.value.id == cur.cls.name and c.func.attr.startswith("_"):
                tgt = cur.cls.lookup_method(c.func.attr)
            if tgt is not None and all(tgt is not s for s in seen):
                seen.append(tgt)
                todo.append((tgt, d + 1))
    return seen
