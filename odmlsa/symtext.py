"""Layout independent reading of expressions and effect calls.

`Expander(f).expand(expr)` rewrites an expression into the vocabulary of the function's parameters and globals:
a local that has exactly one reaching definition `x = <value>` is replaced by that value (recursively), a loop
variable by EACH(<iterable>) (EACH(..)[i] for tuple targets, with enumerate() looked through), so that introducing,
inlining or renaming temporaries, or moving a computation into a private helper, leaves the text unchanged.
Locals with several reaching definitions keep their name (they are real state, e.g. an accumulator).

`effect_calls(prog, f, pred)` lists the calls selected by `pred` in f and - with the actual arguments substituted for
the parameters - in the private helpers f calls, each positioned at the CFG node of f where it happens.
"""
import ast
import copy

from .cfg import build_cfg
from .dataflow import reaching_defs, node_of_ast
from .model import unparse

ORDER_KEEPING_WRAPPERS = ("enumerate", "list", "tuple", "iter")


def _each(it, idx=None):
    c = ast.Call(func=ast.Name(id="EACH", ctx=ast.Load()), args=[it], keywords=[])
    if idx is None:
        return c
    return ast.Subscript(value=c, slice=ast.Constant(value=idx), ctx=ast.Load())


def strip_order_keeping(it):
    """enumerate(X, 1) / list(X) / iter(X) iterate X in X's order; returns (X, enumerated?)"""
    enum = False
    while isinstance(it, ast.Call) and isinstance(it.func, ast.Name) and it.func.id in ORDER_KEEPING_WRAPPERS and it.args:
        if it.func.id == "enumerate":
            enum = True
        it = it.args[0]
    return it, enum


class Expander(object):
    def __init__(self, f, g=None, subst=None, depth=8):
        self.f = f
        self.g = g or build_cfg(f)
        self.subst = subst or {}          # parameter name -> AST (when f is a helper inlined into a caller)
        self.max_depth = depth

    # ------------------------------------------------------------------ public
    def expand(self, expr, node=None, depth=0):
        if node is None:
            node = node_of_ast(self.g, expr)
        return self._x(copy.deepcopy(expr), node, depth, set())

    def text(self, expr, node=None):
        return unparse(self.expand(expr, node))

    # ---------------------------------------------------------------- internal
    def _x(self, e, node, depth, busy):
        if isinstance(e, ast.Name) and isinstance(e.ctx, ast.Load):
            return self._name(e, node, depth, busy)
        if isinstance(e, (ast.ListComp, ast.SetComp, ast.GeneratorExp, ast.DictComp, ast.Lambda)):
            bound = set()
            for gen in getattr(e, "generators", []):
                for t in ast.walk(gen.target):
                    if isinstance(t, ast.Name):
                        bound.add(t.id)
            return self._children(e, node, depth, busy | bound)
        return self._children(e, node, depth, busy)

    def _children(self, e, node, depth, busy):
        for field, val in ast.iter_fields(e):
            if isinstance(val, ast.AST):
                setattr(e, field, self._x(val, node, depth, busy))
            elif isinstance(val, list):
                setattr(e, field, [self._x(v, node, depth, busy) if isinstance(v, ast.AST) else v for v in val])
        return e

    def _name(self, e, node, depth, busy):
        name = e.id
        if name in busy or depth > self.max_depth or node is None:
            return e
        defs = list(reaching_defs(self.g, node, name))
        if node.kind == "for":
            # the iterable of a loop is evaluated before the loop (re)binds its own target
            defs = [d for d in defs if d.id != node.id]
        if len(defs) != 1:
            return e
        d = defs[0]
        if d.kind == "entry":
            if name in self.subst:
                return copy.deepcopy(self.subst[name])
            return e
        st = d.ast
        if d.kind == "stmt" and isinstance(st, ast.Assign) and len(st.targets) == 1:
            t = st.targets[0]
            if isinstance(t, ast.Name) and t.id == name:
                v = st.value
                if isinstance(v, (ast.List, ast.Dict, ast.Set)) or \
                        (isinstance(v, ast.Call) and isinstance(v.func, ast.Name) and v.func.id in ("list", "dict", "set") and not v.args):
                    return e        # a container that is filled by mutation: the name is the state
                return self._x(copy.deepcopy(st.value), d, depth + 1, busy | set([name]))
            if isinstance(t, (ast.Tuple, ast.List)):
                for i, el in enumerate(t.elts):
                    if isinstance(el, ast.Name) and el.id == name:
                        v = st.value
                        if isinstance(v, (ast.Tuple, ast.List)) and len(v.elts) == len(t.elts):
                            return self._x(copy.deepcopy(v.elts[i]), d, depth + 1, busy | set([name]))
                        base = self._x(copy.deepcopy(v), d, depth + 1, busy | set([name]))
                        return ast.Subscript(value=base, slice=ast.Constant(value=i), ctx=ast.Load())
            return e
        if d.kind == "for":
            it, enum = strip_order_keeping(st.iter)
            itx = self._x(copy.deepcopy(it), d, depth + 1, busy)      # the iterable sees the binding from before the loop
            t = st.target
            if isinstance(t, ast.Name) and t.id == name:
                return _each(itx)
            if isinstance(t, (ast.Tuple, ast.List)):
                for i, el in enumerate(t.elts):
                    if isinstance(el, ast.Name) and el.id == name:
                        if enum:
                            return ast.Name(id="INDEX", ctx=ast.Load()) if i == 0 else _each(itx)
                        return _each(itx, i)
                    if enum and i == 1 and isinstance(el, (ast.Tuple, ast.List)):
                        for j, el2 in enumerate(el.elts):
                            if isinstance(el2, ast.Name) and el2.id == name:
                                return _each(itx, j)
            return e
        return e


def _is_private_helper_call(f, c):
    """FuncInfo of the private same-class method / same-module function called by c, or None."""
    fn = c.func
    if isinstance(fn, ast.Attribute) and isinstance(fn.value, ast.Name) and f.cls is not None and fn.attr.startswith("_") \
            and not fn.attr.startswith("__"):
        if (f.params and fn.value.id == f.params[0]) or fn.value.id == f.cls.name:
            return f.cls.lookup_method(fn.attr)
    if isinstance(fn, ast.Name) and fn.id.startswith("_") and fn.id in f.module.functions:
        return f.module.functions[fn.id]
    return None


def _bind(tgt, c, caller_x, node, has_recv):
    """parameter name -> expanded actual argument AST (caller vocabulary)."""
    params = list(tgt.params)
    sub = {}
    if tgt.has_self and params:
        if has_recv:
            sub[params[0]] = caller_x.expand(c.func.value, node) if isinstance(c.func, ast.Attribute) else ast.Name(id=params[0], ctx=ast.Load())
        params_pos = params[1:]
    else:
        params_pos = params
    for i, a in enumerate(c.args):
        if isinstance(a, ast.Starred):
            break
        if i < len(params_pos):
            sub[params_pos[i]] = caller_x.expand(a, node)
    for k in c.keywords:
        if k.arg:
            sub[k.arg] = caller_x.expand(k.value, node)
    for p, dv in tgt.defaults.items():
        if p not in sub:
            sub[p] = copy.deepcopy(dv)
    return sub


class Eff(object):
    """one selected call: .call expanded AST (outermost caller's vocabulary), .node CFG node in the outermost caller,
    .func FuncInfo where it is written, .inner its CFG node there, .x the Expander of that function, .raw the original AST.
    Iterating yields (call, node, func)."""
    __slots__ = ("call", "node", "func", "inner", "x", "raw", "outer")

    def __init__(self, call, node, func, inner, x, raw, outer=()):
        self.call, self.node, self.func, self.inner, self.x, self.raw = call, node, func, inner, x, raw
        self.outer = tuple(outer)       # conditions known at the call sites of the helpers this call was inlined through

    def __iter__(self):
        return iter((self.call, self.node, self.func))

    def guards(self):
        """canonical atoms (expanded text, polarity) known where the call is written."""
        return list(self.outer) + _guards_at(self.x, self.inner)


def _guards_at(x, node):
    from .astutil import atoms_of
    out = []
    for test, pol, br in x.g.dominating_conditions(node):
        if pol in ("true", "false"):
            out += atoms_of(test, pol == "true", lambda e, br=br: x.text(e, br))
    return out


def effect_calls(prog, f, pred, depth=3, _x=None, _at=None, _seen=(), _outer=()):
    """[Eff] for calls c with pred(c), in f and in the private helpers it calls (arguments substituted)."""
    x = _x or Expander(f)
    out = []
    for node in x.g.nodes:
        for root in node.expr_roots():
            for c in ast.walk(root):
                if not isinstance(c, ast.Call):
                    continue
                if pred(c):
                    out.append(Eff(x.expand(c, node), _at or node, f, node, x, c, _outer))
                    continue
                tgt = _is_private_helper_call(f, c) if depth > 0 else None
                if tgt is not None and tgt.qualname not in _seen and tgt is not f:
                    is_static = tgt.kind == "static" or not tgt.has_self
                    sub = _bind(tgt, c, x, node, has_recv=not is_static)
                    hx = Expander(tgt, subst=sub)
                    out += effect_calls(prog, tgt, pred, depth - 1, hx, _at or node, tuple(_seen) + (f.qualname,),
                                        tuple(_outer) + tuple(_guards_at(x, node)))
    return out


def ordered_iterations(fnode, var):
    """(ok_list, bad_list): iteration constructs (for loops, comprehensions) whose iterable is `var` - directly or through an
    order keeping wrapper - and those that reach `var` through anything else (sorted, reversed, set, slicing ...)."""
    ok, bad = [], []
    for n in ast.walk(fnode):
        its = []
        if isinstance(n, (ast.For, ast.AsyncFor)):
            its.append(n.iter)
        elif isinstance(n, ast.comprehension):
            its.append(n.iter)
        elif isinstance(n, ast.Call) and isinstance(n.func, ast.Name) and n.func.id == "map" and len(n.args) == 2:
            its.append(n.args[1])
        for it in its:
            base, _ = strip_order_keeping(it)
            if isinstance(base, ast.Name) and base.id == var:
                ok.append(n)
            elif any(isinstance(y, ast.Name) and y.id == var for y in ast.walk(it)):
                bad.append(n)
    return ok, bad
