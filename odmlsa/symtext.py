"""Layout independent reading of expressions and effect calls.

`Expander(f).expand(expr)` rewrites an expression into the vocabulary of the function's parameters and globals:
a local that has exactly one reaching definition `x = <value>` is replaced by that value (recursively), a loop
variable by EACH(<iterable>) (EACH(..)[i] for tuple targets, with enumerate() looked through), so that introducing,
inlining or renaming temporaries, or moving a computation into a private helper, leaves the text unchanged.
Locals with several reaching definitions keep their name (they are real state, e.g. an accumulator).

`effect_calls(prog, f, pred)` lists the calls selected by `pred` in f and - with the actual arguments substituted for
the parameters - in the private helpers f calls, each positioned at the CFG node of f where it happens.
"""
import ast
import copy

from .cfg import build_cfg
from .dataflow import reaching_defs, node_of_ast
from .model import unparse

ORDER_KEEPING_WRAPPERS = ("enumerate", "list", "tuple", "iter")


def _each(it, idx=None):
    c = ast.Call(func=ast.Name(id="EACH", ctx=ast.Load()), args=[it], keywords=[])
    if idx is None:
        return c
    return ast.Subscript(value=c, slice=ast.Constant(value=idx), ctx=ast.Load())


def strip_order_keeping(it):
    """enumerate(X, 1) / list(X) / iter(X) iterate X in X's order; returns (X, enumerated?)"""
    enum = False
    while isinstance(it, ast.Call) and isinstance(it.func, ast.Name) and it.func.id in ORDER_KEEPING_WRAPPERS and it.args:
        if it.func.id == "enumerate":
            enum = True
        it = it.args[0]
    return it, enum


def _non_none(e):
    """`a if t else None` used as a receiver or as the container of an `in` test can only be `a` there"""
    while isinstance(e, ast.IfExp) and isinstance(e.orelse, ast.Constant) and e.orelse.value is None:
        e = e.body
    return e


def _is_location(v):
    if isinstance(v, ast.IfExp) and isinstance(v.orelse, ast.Constant) and v.orelse.value is None:
        return _is_location(v.body)          # getattr(x, "a", None): the location x.a, or nothing
    while isinstance(v, (ast.Attribute, ast.Subscript)):
        if isinstance(v, ast.Subscript) and not isinstance(v.slice, (ast.Name, ast.Constant, ast.Attribute)):
            return False
        v = v.value
    return isinstance(v, ast.Name)


class _GetattrLiteral(ast.NodeTransformer):
    """getattr(x, 'lit') that appears only after a helper was put in with its literal argument is x.lit"""
    def visit_Call(self, c):
        self.generic_visit(c)
        if isinstance(c.func, ast.Name) and c.func.id == "getattr" and len(c.args) == 2 and not c.keywords \
                and isinstance(c.args[1], ast.Constant) and isinstance(c.args[1].value, str) and c.args[1].value.isidentifier():
            return ast.copy_location(ast.Attribute(value=c.args[0], attr=c.args[1].value, ctx=ast.Load()), c)
        return c


class Expander(object):
    def __init__(self, f, g=None, subst=None, depth=8, only_locations=False, inline=None, expand_names=True):
        self.expand_names = expand_names  # False: only helper calls are inlined, local names stay
        self.inline = inline              # Program: calls of expression-like private helpers are replaced by their result expression
        self.f = f
        self.g = g or build_cfg(f)
        self.subst = subst or {}          # parameter name -> AST (when f is a helper inlined into a caller)
        self.max_depth = depth
        self.only_locations = only_locations   # expand only pure aliases of a location (x = a.b, x = a[k], x = y), never calls

    # ------------------------------------------------------------------ public
    def expand(self, expr, node=None, depth=0):
        if node is None:
            node = node_of_ast(self.g, expr)
        return _GetattrLiteral().visit(self._x(copy.deepcopy(expr), node, depth, set()))

    def text(self, expr, node=None):
        return unparse(self.expand(expr, node))

    # ---------------------------------------------------------------- internal
    def _x(self, e, node, depth, busy):
        if isinstance(e, ast.Name) and isinstance(e.ctx, ast.Load):
            return self._name(e, node, depth, busy)
        if self.inline is not None and isinstance(e, ast.Call) and depth <= self.max_depth:
            r = self._inline_call(e, node, depth, busy)
            if r is not None:
                return r
        if isinstance(e, (ast.ListComp, ast.SetComp, ast.GeneratorExp, ast.DictComp, ast.Lambda)):
            bound = set()
            for gen in getattr(e, "generators", []):
                for t in ast.walk(gen.target):
                    if isinstance(t, ast.Name):
                        bound.add(t.id)
            return self._children(e, node, depth, busy | bound)
        return self._children(e, node, depth, busy)

    def _inline_call(self, c, node, depth, busy):
        """result expression of a call to an expression-like private helper (module level function or static method of the
        repository whose body is a chain of `if t: return a` ... `return b`), with the arguments substituted."""
        from .model import FuncInfo, _func_local_imports
        prog = self.inline
        try:
            tgt = prog.resolve_expr_to_symbol(self.f.module, c.func, local_imports=_func_local_imports(prog, self.f))
        except Exception:
            tgt = None
        if tgt is None and isinstance(c.func, ast.Attribute) and isinstance(c.func.value, ast.Name) and self.f.cls is not None \
                and self.f.params and c.func.value.id in (self.f.params[0], self.f.cls.name):
            m = self.f.cls.lookup_method(c.func.attr)
            if m is not None and m.kind == "static":
                tgt = m
        if tgt is None and isinstance(c.func, ast.Attribute) and isinstance(c.func.value, ast.Name) and self.f.cls is not None \
                and self.f.params and c.func.value.id == self.f.params[0] and self.f.kind == "classmethod":
            m = self.f.cls.lookup_method(c.func.attr)
            if m is not None and m.kind == "classmethod":
                tgt = m
        if not isinstance(tgt, FuncInfo) or tgt.kind not in ("function", "static", "classmethod") or not tgt.name.startswith("_") or tgt.is_generator:
            return None
        expr = expression_of(tgt)
        if expr is None:
            return None
        if any(isinstance(a, ast.Starred) for a in c.args) or any(k.arg is None for k in c.keywords) or tgt.vararg or tgt.kwarg:
            return None
        sub = {}
        pparams = tgt.params[1:] if tgt.kind == "classmethod" else tgt.params
        if tgt.kind == "classmethod" and tgt.params:
            sub[tgt.params[0]] = ast.Name(id=tgt.params[0], ctx=ast.Load())
        for i, a in enumerate(c.args):
            if i >= len(pparams):
                return None
            sub[pparams[i]] = self._x(copy.deepcopy(a), node, depth + 1, busy)
        for k in c.keywords:
            sub[k.arg] = self._x(copy.deepcopy(k.value), node, depth + 1, busy)
        for p0 in tgt.params + tgt.kwonly:
            if p0 not in sub:
                if p0 in tgt.defaults:
                    sub[p0] = copy.deepcopy(tgt.defaults[p0])
                else:
                    return None

        class S(ast.NodeTransformer):
            def visit_Name(self, n):
                if isinstance(n.ctx, ast.Load) and n.id in sub:
                    return copy.deepcopy(sub[n.id])
                return n
        out = S().visit(copy.deepcopy(expr))
        out = _fold_none_tests(out)
        # nested helper calls inside the inlined body
        hx = Expander(tgt, subst={}, inline=prog, depth=self.max_depth)
        return hx._inline_nested(out, depth + 1)

    def _inline_nested(self, e, depth):
        if depth > self.max_depth:
            return e
        for field, val in ast.iter_fields(e):
            if isinstance(val, ast.AST):
                setattr(e, field, self._inline_nested(val, depth))
            elif isinstance(val, list):
                setattr(e, field, [self._inline_nested(v, depth) if isinstance(v, ast.AST) else v for v in val])
        if isinstance(e, ast.Call):
            r = self._inline_call(e, None, depth, set())
            if r is not None:
                return r
        return e

    def _children(self, e, node, depth, busy):
        for field, val in ast.iter_fields(e):
            if isinstance(val, ast.AST):
                setattr(e, field, self._x(val, node, depth, busy))
            elif isinstance(val, list):
                setattr(e, field, [self._x(v, node, depth, busy) if isinstance(v, ast.AST) else v for v in val])
        if isinstance(e, ast.Attribute):
            e.value = _non_none(e.value)
        elif isinstance(e, ast.Compare) and all(isinstance(o, (ast.In, ast.NotIn)) for o in e.ops):
            e.comparators = [_non_none(c) for c in e.comparators]
        return e

    def _name(self, e, node, depth, busy):
        name = e.id
        if not self.expand_names and name not in self.subst:
            return e
        if name in busy or depth > self.max_depth or node is None:
            return e
        defs = list(reaching_defs(self.g, node, name))
        if node.kind == "for":
            # the iterable of a loop is evaluated before the loop (re)binds its own target
            defs = [d for d in defs if d.id != node.id]
        if len(defs) != 1:
            return e
        d = defs[0]
        if d.kind == "entry":
            if name in self.subst:
                return copy.deepcopy(self.subst[name])
            return e
        st = d.ast
        if d.kind == "stmt" and isinstance(st, ast.Assign) and len(st.targets) == 1:
            t = st.targets[0]
            if isinstance(t, ast.Name) and t.id == name:
                v = st.value
                if isinstance(v, (ast.List, ast.Dict, ast.Set)) or \
                        (isinstance(v, ast.Call) and isinstance(v.func, ast.Name) and v.func.id in ("list", "dict", "set") and not v.args):
                    return e        # a container that is filled by mutation: the name is the state
                if self.only_locations and not _is_location(v):
                    return e
                return self._x(copy.deepcopy(st.value), d, depth + 1, busy | set([name]))
            if isinstance(t, (ast.Tuple, ast.List)):
                for i, el in enumerate(t.elts):
                    if isinstance(el, ast.Name) and el.id == name:
                        v = st.value
                        if isinstance(v, (ast.Tuple, ast.List)) and len(v.elts) == len(t.elts):
                            return self._x(copy.deepcopy(v.elts[i]), d, depth + 1, busy | set([name]))
                        base = self._x(copy.deepcopy(v), d, depth + 1, busy | set([name]))
                        return ast.Subscript(value=base, slice=ast.Constant(value=i), ctx=ast.Load())
            return e
        if d.kind == "for":
            if self.only_locations:
                return e
            it, enum = strip_order_keeping(st.iter)
            itx = self._x(copy.deepcopy(it), d, depth + 1, busy)      # the iterable sees the binding from before the loop
            itx2, enum2 = strip_order_keeping(itx)                     # `xs = list(gen()); for x in xs`: the order keeping wrapper came in with the local
            if not enum2:
                itx = itx2
            t = st.target
            if isinstance(t, ast.Name) and t.id == name:
                return _each(itx)
            if isinstance(t, (ast.Tuple, ast.List)):
                for i, el in enumerate(t.elts):
                    if isinstance(el, ast.Name) and el.id == name:
                        if enum:
                            return ast.Name(id="INDEX", ctx=ast.Load()) if i == 0 else _each(itx)
                        return _each(itx, i)
                    if enum and i == 1 and isinstance(el, (ast.Tuple, ast.List)):
                        for j, el2 in enumerate(el.elts):
                            if isinstance(el2, ast.Name) and el2.id == name:
                                return _each(itx, j)
            return e
        return e


def expression_of(tgt):
    """the result of an expression-like function as one expression (nested conditional expressions), or None.
    expression-like: after the docstring only single-assignment locals, `if t: return a` (no else / else: return) and a final return."""
    if "_expression_of" in tgt.__dict__:          # memoised on the function object itself (ids of AST nodes are not stable keys)
        return tgt.__dict__["_expression_of"]
    # expression statements (calls made for their effect) do not change the value that is returned: skipped
    body = [st for st in tgt.node.body if not isinstance(st, (ast.Expr, ast.Import, ast.ImportFrom, ast.Pass))]

    def subst_locals(e, env):
        class L(ast.NodeTransformer):
            def visit_Name(self, n):
                if isinstance(n.ctx, ast.Load) and n.id in env:
                    return copy.deepcopy(env[n.id])
                return n
        return L().visit(copy.deepcopy(e))

    def only_assignments(stmts):
        return all(isinstance(x, ast.Assign) and len(x.targets) == 1 and isinstance(x.targets[0], ast.Name) for x in stmts)

    def assign_all(stmts, env):
        env = dict(env)
        for x in stmts:
            env[x.targets[0].id] = subst_locals(x.value, env)
        return env

    def build(stmts, env):
        if not stmts:
            return ast.Constant(value=None)
        st = stmts[0]
        if isinstance(st, ast.Return):
            return subst_locals(st.value, env) if st.value is not None else ast.Constant(value=None)
        if isinstance(st, ast.Assign) and len(st.targets) == 1 and isinstance(st.targets[0], ast.Name):
            # (re-)binding of a local: later reads see the new value (the expressions are substituted, so the order is kept)
            return build(stmts[1:], assign_all([st], env))
        if isinstance(st, ast.If) and st.body and only_assignments(st.body) and only_assignments(st.orelse):
            # `x = a` ... `if t: x = b`  -  a conditional re-binding: x is (b if t else a) afterwards
            t = subst_locals(st.test, env)
            e_then, e_else = assign_all(st.body, env), assign_all(st.orelse, env)
            merged = dict(env)
            for name in set(e_then) | set(e_else):
                a0, b0 = e_then.get(name), e_else.get(name)
                if name in tgt.params:
                    # a parameter that is re-bound on one side keeps the argument on the other
                    a0 = a0 if a0 is not None else ast.Name(id=name, ctx=ast.Load())
                    b0 = b0 if b0 is not None else ast.Name(id=name, ctx=ast.Load())
                if a0 is None or b0 is None:
                    return None           # unbound on one side
                merged[name] = a0 if a0 is b0 or ast.dump(a0) == ast.dump(b0) else ast.IfExp(test=copy.deepcopy(t), body=a0, orelse=b0)
            return build(stmts[1:], merged)
        if isinstance(st, ast.If):
            then = build(list(st.body), env)
            if then is None or not _ends_with_return(st.body):
                return None
            if st.orelse and not _ends_with_return(st.orelse):
                return None
            rest = build(list(st.orelse) + stmts[1:], env)
            if rest is None:
                return None
            return ast.IfExp(test=subst_locals(st.test, env), body=then, orelse=rest)
        return None
    try:
        r = build(body, {})
    except Exception:
        r = None
    tgt.__dict__["_expression_of"] = r
    return r


def _ends_with_return(stmts):
    return bool(stmts) and isinstance(stmts[-1], ast.Return) and all(isinstance(s0, (ast.Return, ast.Assign)) for s0 in stmts)


def _fold_none_tests(e):
    """`None is None` -> True etc. inside conditional expressions; conditional expressions with a constant test are reduced;
    a lambda that is applied on the spot is replaced by its body with the arguments put in."""
    class _S(ast.NodeTransformer):
        def __init__(self, mapping):
            self.mapping = mapping

        def visit_Name(self, n):
            if n.id in self.mapping and isinstance(n.ctx, ast.Load):
                return copy.deepcopy(self.mapping[n.id])
            return n

    class F(ast.NodeTransformer):
        def visit_Call(self, n):
            self.generic_visit(n)
            fn = n.func
            if isinstance(fn, ast.Lambda) and not n.keywords and not any(isinstance(a, ast.Starred) for a in n.args) \
                    and not fn.args.vararg and not fn.args.kwarg and not fn.args.kwonlyargs and len(fn.args.args) == len(n.args) \
                    and all(isinstance(a, (ast.Name, ast.Attribute, ast.Constant)) for a in n.args):
                return _S(dict((p.arg, a) for p, a in zip(fn.args.args, n.args))).visit(copy.deepcopy(fn.body))
            return n

        def visit_IfExp(self, n):
            self.generic_visit(n)
            t = n.test
            v = _const_truth(t)
            if v is True:
                return n.body
            if v is False:
                return n.orelse
            return n
    return F().visit(e)


def _const_truth(t):
    if isinstance(t, ast.Constant):
        return bool(t.value)
    if isinstance(t, ast.UnaryOp) and isinstance(t.op, ast.Not):
        v = _const_truth(t.operand)
        return None if v is None else (not v)
    if isinstance(t, ast.Compare) and len(t.ops) == 1 and isinstance(t.left, ast.Lambda) and isinstance(t.comparators[0], ast.Constant) \
            and t.comparators[0].value is None and isinstance(t.ops[0], (ast.Is, ast.IsNot)):
        return isinstance(t.ops[0], ast.IsNot)          # a lambda is not None
    if isinstance(t, ast.Compare) and len(t.ops) == 1 and isinstance(t.left, ast.Constant) and isinstance(t.comparators[0], ast.Constant):
        a, b = t.left.value, t.comparators[0].value
        if isinstance(t.ops[0], ast.Is):
            return a is b
        if isinstance(t.ops[0], ast.IsNot):
            return a is not b
        if isinstance(t.ops[0], ast.Eq):
            return a == b
        if isinstance(t.ops[0], ast.NotEq):
            return a != b
    return None


def _is_private_helper_call(f, c):
    """FuncInfo of the private same-class method / same-module function called by c, or None."""
    fn = c.func
    if isinstance(fn, ast.Attribute) and isinstance(fn.value, ast.Name) and f.cls is not None and fn.attr.startswith("_") \
            and not fn.attr.startswith("__"):
        if (f.params and fn.value.id == f.params[0]) or fn.value.id == f.cls.name:
            return f.cls.lookup_method(fn.attr)
    if isinstance(fn, ast.Name) and fn.id.startswith("_") and fn.id in f.module.functions:
        return f.module.functions[fn.id]
    return None


def _bind(tgt, c, caller_x, node, has_recv):
    """parameter name -> expanded actual argument AST (caller vocabulary)."""
    params = list(tgt.params)
    sub = {}
    if tgt.has_self and params:
        if has_recv:
            sub[params[0]] = caller_x.expand(c.func.value, node) if isinstance(c.func, ast.Attribute) else ast.Name(id=params[0], ctx=ast.Load())
        params_pos = params[1:]
    else:
        params_pos = params
    for i, a in enumerate(c.args):
        if isinstance(a, ast.Starred):
            break
        if i < len(params_pos):
            sub[params_pos[i]] = caller_x.expand(a, node)
    for k in c.keywords:
        if k.arg:
            sub[k.arg] = caller_x.expand(k.value, node)
    for p, dv in tgt.defaults.items():
        if p not in sub:
            sub[p] = copy.deepcopy(dv)
    return sub


class Eff(object):
    """one selected call: .call expanded AST (outermost caller's vocabulary), .node CFG node in the outermost caller,
    .func FuncInfo where it is written, .inner its CFG node there, .x the Expander of that function, .raw the original AST.
    Iterating yields (call, node, func)."""
    __slots__ = ("call", "node", "func", "inner", "x", "raw", "outer")

    def __init__(self, call, node, func, inner, x, raw, outer=()):
        self.call, self.node, self.func, self.inner, self.x, self.raw = call, node, func, inner, x, raw
        self.outer = tuple(outer)       # conditions known at the call sites of the helpers this call was inlined through

    def __iter__(self):
        return iter((self.call, self.node, self.func))

    def guards(self):
        """canonical atoms (expanded text, polarity) known where the call is written."""
        return list(self.outer) + _guards_at(self.x, self.inner) + _expr_guards(self.x, self.inner, self.raw)


def _expr_guards(x, node, call):
    """atoms from the conditional expression / short-circuit tests under which `call` is evaluated inside its statement"""
    from .astutil import atoms_of
    from .events import _walk_expr
    out = []
    for root in node.expr_roots():
        evs = []
        _walk_expr(root, evs)
        for ev in evs:
            if ev.get("ast") is call and ev.get("kind") == "call":
                for test, pol in ev.get("guards") or ():
                    out += atoms_of(x.expand(test, node), pol)
                return out
    return out


def _guards_at(x, node):
    from .astutil import atoms_of
    out = []
    for test, pol, br in x.g.dominating_conditions(node):
        if pol in ("true", "false"):
            out += atoms_of(x.expand(test, br), pol == "true")       # expand first: an inlined helper test is decomposed too
    return out


def effect_calls(prog, f, pred, depth=3, _x=None, _at=None, _seen=(), _outer=(), expanded=False):
    """[Eff] for calls c with pred(c), in f and in the private helpers it calls (arguments substituted).
    expanded=True: pred is applied to the expanded call (so `add = self.graph.add; add(t)` is seen as self.graph.add(t))."""
    x = _x or Expander(f, inline=prog)
    out = []
    for node in x.g.nodes:
        for root in node.expr_roots():
            for c in ast.walk(root):
                if not isinstance(c, ast.Call):
                    continue
                cx = None
                if expanded:
                    cx = x.expand(c, node)
                    hit = isinstance(cx, ast.Call) and pred(cx)
                else:
                    hit = pred(c)
                if hit:
                    out.append(Eff(cx if cx is not None else x.expand(c, node), _at or node, f, node, x, c, _outer))
                    continue
                tgt = _is_private_helper_call(f, c) if depth > 0 else None
                if tgt is not None and tgt.qualname not in _seen and tgt is not f:
                    is_static = tgt.kind == "static" or not tgt.has_self
                    sub = _bind(tgt, c, x, node, has_recv=not is_static)
                    hx = Expander(tgt, subst=sub, inline=prog)
                    out += effect_calls(prog, tgt, pred, depth - 1, hx, _at or node, tuple(_seen) + (f.qualname,),
                                        tuple(_outer) + tuple(_guards_at(x, node)) + tuple(_expr_guards(x, node, c)), expanded)
    return out


def ordered_iterations(fnode, var):
    """(ok_list, bad_list): iteration constructs (for loops, comprehensions) whose iterable is `var` - directly or through an
    order keeping wrapper - and those that reach `var` through anything else (sorted, reversed, set, slicing ...)."""
    ok, bad = [], []
    for n in ast.walk(fnode):
        its = []
        if isinstance(n, (ast.For, ast.AsyncFor)):
            its.append(n.iter)
        elif isinstance(n, ast.comprehension):
            its.append(n.iter)
        elif isinstance(n, ast.Call) and isinstance(n.func, ast.Name) and n.func.id == "map" and len(n.args) == 2:
            its.append(n.args[1])
        for it in its:
            base, _ = strip_order_keeping(it)
            if isinstance(base, ast.Name) and base.id == var:
                ok.append(n)
            elif any(isinstance(y, ast.Name) and y.id == var for y in ast.walk(it)):
                bad.append(n)
    return ok, bad


# ----------------------------------------------------------------------------------------------- canonical expression form
def canon_expr(prog, f, e):
    """copy of the (expanded) expression e in a spelling independent form:
      * references to imported external objects by their dotted name (osp.join, join -> os.path.join)
      * os.path.split(p)[0] / [1] -> os.path.dirname(p) / os.path.basename(p)
      * text built by an f-string, `const % args`, const.format(args) or a + chain with a literal -> TEMPLATE(part, ...)
    Only for comparing shapes: TEMPLATE equates str(x) formatting with + concatenation, which agree for text operands."""
    from .model import canonical_name
    from .astutil import template_parts

    def ext_name(n):
        try:
            cn = canonical_name(prog, f, n)
        except Exception:
            return None
        if cn and cn != ast.unparse(n) and all(p0.isidentifier() for p0 in cn.split(".")):
            return cn
        return None

    class T(ast.NodeTransformer):
        def visit_Attribute(self, n):
            cn = ext_name(n) if isinstance(n.ctx, ast.Load) else None
            if cn:
                return ast.copy_location(ast.parse(cn, mode="eval").body, n)
            return self.generic_visit(n)

        def visit_Name(self, n):
            cn = ext_name(n) if isinstance(n.ctx, ast.Load) else None
            if cn and "." in cn:
                return ast.copy_location(ast.parse(cn, mode="eval").body, n)
            return n

        def visit_Subscript(self, n):
            n = self.generic_visit(n)
            v = n.value
            # x.split(sep)[0] is x.partition(sep)[0]
            if isinstance(v, ast.Call) and isinstance(v.func, ast.Attribute) and v.func.attr == "split" and len(v.args) == 1 \
                    and isinstance(v.args[0], ast.Constant) and isinstance(n.slice, ast.Constant) and n.slice.value == 0 and not v.keywords:
                part = ast.Call(func=ast.Attribute(value=v.func.value, attr="partition", ctx=ast.Load()), args=v.args, keywords=[])
                return ast.copy_location(ast.Subscript(value=part, slice=ast.Constant(value=0), ctx=ast.Load()), n)
            if isinstance(v, ast.Call) and ast.unparse(v.func) == "os.path.split" and len(v.args) == 1 and isinstance(n.slice, ast.Constant) \
                    and n.slice.value in (0, 1):
                fn = "os.path.dirname" if n.slice.value == 0 else "os.path.basename"
                return ast.copy_location(ast.Call(func=ast.parse(fn, mode="eval").body, args=v.args, keywords=[]), n)
            return n

        def _template(self, n):
            parts = template_parts(None, n)
            if not parts or not any(k == "lit" for k, _ in parts) or not any(k == "hole" for k, _ in parts):
                return None
            args = [ast.Constant(value=v) if k == "lit" else self.visit(v) for k, v in parts]
            return ast.copy_location(ast.Call(func=ast.Name(id="TEMPLATE", ctx=ast.Load()), args=args, keywords=[]), n)

        def visit_JoinedStr(self, n):
            return self._template(n) or self.generic_visit(n)

        def visit_BinOp(self, n):
            if isinstance(n.op, (ast.Add, ast.Mod)):
                t = self._template(n)
                if t is not None:
                    return t
            return self.generic_visit(n)

        def visit_Call(self, n):
            # sep.join(x.split(sep)[1:]) is x.partition(sep)[2]
            if isinstance(n.func, ast.Attribute) and n.func.attr == "join" and isinstance(n.func.value, ast.Constant) and len(n.args) == 1 \
                    and isinstance(n.args[0], ast.Subscript) and isinstance(n.args[0].slice, ast.Slice) \
                    and isinstance(n.args[0].slice.lower, ast.Constant) and n.args[0].slice.lower.value == 1 \
                    and n.args[0].slice.upper is None and n.args[0].slice.step is None:
                sp = n.args[0].value
                if isinstance(sp, ast.Call) and isinstance(sp.func, ast.Attribute) and sp.func.attr == "split" and len(sp.args) == 1 \
                        and isinstance(sp.args[0], ast.Constant) and sp.args[0].value == n.func.value.value and not sp.keywords:
                    part = ast.Call(func=ast.Attribute(value=self.visit(sp.func.value), attr="partition", ctx=ast.Load()), args=sp.args, keywords=[])
                    return ast.copy_location(ast.Subscript(value=part, slice=ast.Constant(value=2), ctx=ast.Load()), n)
            if isinstance(n.func, ast.Attribute) and n.func.attr == "format" and isinstance(n.func.value, ast.Constant):
                t = self._template(n)
                if t is not None:
                    return t
            return self.generic_visit(n)
    out = T().visit(copy.deepcopy(e))
    return ast.fix_missing_locations(out)


def canon_text(prog, f, e):
    return ast.unparse(canon_expr(prog, f, e))
