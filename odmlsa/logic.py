"""Propositional reasoning over branch tests and "must cross" path rules.

Branch tests are and/or/not trees over leaves. A rule names the leaves it cares about through a `classify`
function (leaf AST -> label or None); all other leaves are opaque variables identified by their canonical text.
`entails(test, pol, classify, goal)` decides by truth table (a handful of variables) whether knowing that `test`
evaluated to `pol` forces `goal`.  `must_cross(g, target, edge_ok)` decides whether every entry->target path
crosses an edge accepted by `edge_ok` - the path form of "a guard dominates the statement" that is insensitive
to how the guard is written (one combined test, nested tests, early returns, flipped branches).
"""
import ast
import itertools

from .model import unparse

_FLIP = {ast.IsNot: ast.Is, ast.NotIn: ast.In, ast.NotEq: ast.Eq}


def to_tree(test, classify=None, norm_fn=None):
    nf = norm_fn or unparse
    if isinstance(test, ast.BoolOp):
        return ("and" if isinstance(test.op, ast.And) else "or", [to_tree(v, classify, nf) for v in test.values])
    if isinstance(test, ast.UnaryOp) and isinstance(test.op, ast.Not):
        return ("not", to_tree(test.operand, classify, nf))
    if isinstance(test, ast.IfExp):
        c = to_tree(test.test, classify, nf)
        return ("or", [("and", [c, to_tree(test.body, classify, nf)]), ("and", [("not", c), to_tree(test.orelse, classify, nf)])])
    if isinstance(test, ast.Constant):
        return ("const", bool(test.value))
    if isinstance(test, ast.Call) and isinstance(test.func, ast.Name) and test.func.id == "isinstance" and len(test.args) == 2 \
            and isinstance(test.args[1], ast.Tuple) and test.args[1].elts and not test.keywords:
        # isinstance(x, (A, B)) is isinstance(x, A) or isinstance(x, B)
        return ("or", [to_tree(ast.Call(func=test.func, args=[test.args[0], e], keywords=[]), classify, nf) for e in test.args[1].elts])
    neg = False
    leaf = test
    if isinstance(test, ast.Compare) and len(test.ops) == 1 and type(test.ops[0]) in _FLIP:
        leaf = ast.Compare(left=test.left, ops=[_FLIP[type(test.ops[0])]()], comparators=test.comparators)
        neg = True
    label = classify(leaf) if classify else None
    if label is None:
        label = "`" + nf(leaf) + "`"
    t = ("var", label)
    return ("not", t) if neg else t


def tree_vars(tree, acc=None):
    acc = set() if acc is None else acc
    if tree[0] == "var":
        acc.add(tree[1])
    elif tree[0] == "const":
        pass
    elif tree[0] == "not":
        tree_vars(tree[1], acc)
    else:
        for t in tree[1]:
            tree_vars(t, acc)
    return acc


def eval_tree(tree, assign):
    k = tree[0]
    if k == "var":
        return assign[tree[1]]
    if k == "const":
        return tree[1]
    if k == "not":
        return not eval_tree(tree[1], assign)
    if k == "and":
        return all(eval_tree(t, assign) for t in tree[1])
    return any(eval_tree(t, assign) for t in tree[1])


def entails(test, pol, classify, goal, goal_vars=(), norm_fn=None):
    """does `test evaluates to pol` force goal(assignment)?  (truth table; at most 2**10 rows)"""
    tree = to_tree(test, classify, norm_fn)
    vs = sorted(tree_vars(tree) | set(goal_vars))
    if len(vs) > 10:
        return False
    for bits in itertools.product((False, True), repeat=len(vs)):
        a = dict(zip(vs, bits))
        if eval_tree(tree, a) == pol and not goal(a):
            return False
    return True


def labels_in(test, classify):
    return set(v for v in tree_vars(to_tree(test, classify)) if not v.startswith("`"))


def reach_avoiding(g, start, target, edge_ok, skip_kinds=()):
    """is `target` reachable from `start` without crossing an edge for which edge_ok(src, kind, dst) holds?"""
    seen = set()
    stack = [start]
    while stack:
        n = stack.pop()
        if n.id in seen:
            continue
        seen.add(n.id)
        if n.id == target.id:
            return True
        for kind, m in n.succ:
            if kind in skip_kinds:
                continue
            if edge_ok(n, kind, m):
                continue
            stack.append(m)
    return False


def must_cross(g, target, edge_ok, start=None):
    """every path from the entry (or `start`) to `target` crosses an accepted edge."""
    return not reach_avoiding(g, start or g.entry, target, edge_ok)


def branch_edge_entails(classify, goal, goal_vars=(), norm_fn=None, with_node=False, expand_test=None):
    """edge predicate for must_cross: the edge is the true/false edge of a branch whose outcome forces `goal`.
    with_node: classify is called as classify(leaf, branch_node) (for classifiers that expand the leaf in its context)."""
    def ok(src, kind, dst):
        if src.kind != "branch" or kind not in ("true", "false"):
            return False
        cl = (lambda lf, src=src: classify(lf, src)) if with_node else classify
        test = expand_test(src.ast.test, src) if expand_test is not None else src.ast.test
        return entails(test, kind == "true", cl, goal, goal_vars, norm_fn)
    return ok


def known(g, node, classify, goal, goal_vars=(), norm_fn=None, with_node=False, start=None, expand_test=None):
    """path form of `goal is known at node`: every entry->node path crosses a branch edge that forces goal - or, when no single
    edge does, the branch outcomes collected along every path force it together (known_on_paths).
    expand_test(test_ast, branch_node) may rewrite the test first (locals expanded, helpers inlined)."""
    if must_cross(g, node, branch_edge_entails(classify, goal, goal_vars, norm_fn, with_node, expand_test), start):
        return True
    return known_on_paths(g, node, classify, goal, goal_vars, norm_fn, with_node, start, expand_test)


def known_on_paths(g, node, classify, goal, goal_vars=(), norm_fn=None, with_node=False, start=None, expand_test=None, limit=6000):
    """on every (propositionally feasible) path from the entry / `start` to `node`, the branch outcomes taken - each dropped again
    when a name its test reads is re-bound - entail `goal` together.  Covers a condition split over nested ifs, over an early
    return plus a later test, or weakened by a disjunction that a later test resolves."""
    from .dataflow import node_defs
    seen = set()
    stack = [(start or g.entry, ())]
    steps = 0
    gv = list(goal_vars)
    while stack:
        n, cons = stack.pop()
        steps += 1
        if steps > limit:
            return False
        key = (n.id, tuple(sorted((repr(t), p) for t, p, _ in cons)))
        if key in seen:
            continue
        seen.add(key)
        if n.id == node.id and (n is not (start or g.entry) or cons or steps > 1):
            # is `not goal` still possible under the collected outcomes?
            vs = set(gv)
            for t, _, _ in cons:
                tree_vars(t, vs)
            vs = sorted(vs)
            if len(vs) > 12:
                return False
            for bits in itertools.product((False, True), repeat=len(vs)):
                a = dict(zip(vs, bits))
                if all(eval_tree(t, a) == pol for t, pol, _ in cons) and not goal(a):
                    return False
            continue            # a path that reaches the node ends there (later visits start from the node again)
        defs = set(node_defs(n)) if n.kind != "branch" else set()
        if defs:
            cons = tuple(c for c in cons if not (c[2] & defs))
        for kind, m in n.succ:
            if kind == "exc" and m.kind in ("raise_exit",):
                continue
            c2 = cons
            if n.kind == "branch" and kind in ("true", "false"):
                cl = (lambda lf, n=n: classify(lf, n)) if with_node else classify
                test = expand_test(n.ast.test, n) if expand_test is not None else n.ast.test
                tree = to_tree(test, cl, norm_fn)
                names = frozenset(y.id for y in ast.walk(n.ast.test) if isinstance(y, ast.Name))
                c2 = cons + ((tree, kind == "true", names),)
                if not _satisfiable([(t, p) for t, p, _ in c2]):
                    continue
            stack.append((m, c2))
    return True


def _satisfiable(constraints):
    """is there an assignment making every (tree, polarity) constraint hold? (truth table, at most 2**12 rows; True if too large)"""
    vs = set()
    for t, _ in constraints:
        tree_vars(t, vs)
    vs = sorted(vs)
    if len(vs) > 12:
        return True
    for bits in itertools.product((False, True), repeat=len(vs)):
        a = dict(zip(vs, bits))
        if all(eval_tree(t, a) == pol for t, pol in constraints):
            return True
    return False


def reach_feasible(g, starts, target, stop_ids=(), classify=None, norm_fn=None, skip_kinds=("exc",), limit=4000):
    """is `target` reachable from one of `starts` along a path that (a) enters no node of stop_ids and (b) is propositionally
    feasible: the branch outcomes taken along it are jointly satisfiable, where a test's knowledge is dropped as soon as
    one of the names it reads is re-bound.  Leaves are identified by classify(leaf) or their text, so two spellings of
    one test agree only through classify / norm_fn.  Over-approximates feasibility (opaque leaves are free)."""
    from .dataflow import node_defs
    seen = set()
    stack = [(s0, ()) for s0 in starts]
    steps = 0
    while stack:
        n, cons = stack.pop()
        steps += 1
        if steps > limit:
            return True
        if n.id == target.id:
            return True
        if n.id in stop_ids:
            continue
        key = (n.id, tuple(sorted((repr(t), p) for t, p, _ in cons)))
        if key in seen:
            continue
        seen.add(key)
        defs = set(node_defs(n)) if n.kind not in ("branch",) else set()
        if defs:
            cons = tuple(c for c in cons if not (c[2] & defs))
        for kind, m in n.succ:
            if kind in skip_kinds:
                continue
            c2 = cons
            if n.kind == "branch" and kind in ("true", "false"):
                tree = to_tree(n.ast.test, classify, norm_fn)
                names = frozenset(y.id for y in ast.walk(n.ast.test) if isinstance(y, ast.Name))
                c2 = cons + ((tree, kind == "true", names),)
                if not _satisfiable([(t, p) for t, p, _ in c2]):
                    continue
            stack.append((m, c2))
    return False
