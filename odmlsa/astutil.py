"""Small AST helpers shared by the rules."""
import ast

from .model import unparse, walk_no_nested


def norm(node):
    """normalised source text of a node (position independent)."""
    return unparse(node)


def calls_in(node):
    return [n for n in ast.walk(node) if isinstance(n, ast.Call)]


def call_name(call):
    """dotted text of the callee expression."""
    return unparse(call.func)


def attr_chain(expr):
    """['self', '_parent', 'remove'] for self._parent.remove ; None if not a pure chain."""
    parts = []
    e = expr
    while isinstance(e, ast.Attribute):
        parts.append(e.attr)
        e = e.value
    if isinstance(e, ast.Name):
        parts.append(e.id)
        parts.reverse()
        return parts
    return None


def names_in(node):
    return set(n.id for n in ast.walk(node) if isinstance(n, ast.Name))


def is_name(node, name):
    return isinstance(node, ast.Name) and node.id == name


def is_attr_of(node, base_name, attr=None):
    return (isinstance(node, ast.Attribute) and isinstance(node.value, ast.Name)
            and node.value.id == base_name and (attr is None or node.attr == attr))


def const_value(node, default=None):
    if isinstance(node, ast.Constant):
        return node.value
    return default


def stmt_targets(st):
    """assignment targets (flattened) of a statement."""
    out = []
    if isinstance(st, ast.Assign):
        ts = st.targets
    elif isinstance(st, (ast.AugAssign, ast.AnnAssign)):
        ts = [st.target]
    elif isinstance(st, (ast.For, ast.AsyncFor)):
        ts = [st.target]
    elif isinstance(st, ast.Delete):
        ts = st.targets
    else:
        ts = []
    for t in ts:
        if isinstance(t, (ast.Tuple, ast.List)):
            out.extend(t.elts)
        else:
            out.append(t)
    return out


def local_assignments(fnode, name):
    """all value expressions assigned to local `name` in the function."""
    out = []
    for n in walk_no_nested(fnode):
        if isinstance(n, ast.Assign):
            for t in n.targets:
                if is_name(t, name):
                    out.append(n.value)
        elif isinstance(n, ast.AugAssign) and is_name(n.target, name):
            out.append(n)
    return out


def docstring_free_body(fnode):
    return [s for s in fnode.body
            if not (isinstance(s, ast.Expr) and isinstance(s.value, ast.Constant)
                    and isinstance(s.value.value, str))]


def kw(call, name, pos=None):
    """argument expression by keyword name or position."""
    for k in call.keywords:
        if k.arg == name:
            return k.value
    if pos is not None and len(call.args) > pos and not any(isinstance(a, ast.Starred) for a in call.args[:pos + 1]):
        return call.args[pos]
    return None


def where(func, node):
    return "%s:%d %s" % (func.module.path, getattr(node, "lineno", func.node.lineno), func.short)


def truthiness_tests(test):
    """names/attribute texts whose *truthiness* decides the test: returns a list of
    (expr_text, polarity) for bare operands of the condition (through and/or/not).
    `x is None`, `x == ''`, comparisons and calls are not truthiness tests."""
    out = []

    def rec(e, pol):
        if isinstance(e, ast.BoolOp):
            for v in e.values:
                rec(v, pol)
        elif isinstance(e, ast.UnaryOp) and isinstance(e.op, ast.Not):
            rec(e.operand, not pol)
        elif isinstance(e, (ast.Name, ast.Attribute, ast.Subscript)):
            out.append((unparse(e), pol, e))
    rec(test, True)
    return out


def atoms_of(test, pol, norm_fn=None):
    """[(text, polarity)] canonical atoms necessarily true/false when `test` evaluates to `pol`:
    and/or/not are decomposed, `is not` / `not in` / `!=` are turned into their positive form with flipped polarity."""
    nf = norm_fn or unparse
    out = []
    if isinstance(test, ast.BoolOp):
        if isinstance(test.op, ast.And) and pol:
            for v in test.values:
                out += atoms_of(v, True, nf)
        elif isinstance(test.op, ast.Or) and not pol:
            for v in test.values:
                out += atoms_of(v, False, nf)
        else:
            out.append((nf(test), pol))
        return out
    if isinstance(test, ast.UnaryOp) and isinstance(test.op, ast.Not):
        return atoms_of(test.operand, not pol, nf)
    if isinstance(test, ast.Call) and isinstance(test.func, ast.Name) and test.func.id == "bool" and len(test.args) == 1 and not test.keywords:
        return atoms_of(test.args[0], pol, nf)          # bool(x) is true exactly when x is
    if isinstance(test, ast.IfExp):
        # a conditional expression with a constant arm is a conjunction / disjunction: `False if c else y` is `not c and y`
        for const_arm, other, c_pol in ((test.body, test.orelse, False), (test.orelse, test.body, True)):
            if isinstance(const_arm, ast.Constant) and isinstance(const_arm.value, bool):
                if const_arm.value != pol:
                    # the result differs from the constant arm, so the other arm was taken and gave `pol`
                    return atoms_of(test.test, c_pol, nf) + atoms_of(other, pol, nf)
                break
        return [(nf(test), pol)]
    if isinstance(test, ast.Compare) and len(test.ops) == 1:
        flip = {ast.IsNot: ast.Is, ast.NotIn: ast.In, ast.NotEq: ast.Eq}.get(type(test.ops[0]))
        if flip is not None:
            return [(nf(ast.Compare(left=test.left, ops=[flip()], comparators=test.comparators)), not pol)]
    return [(nf(test), pol)]


def atoms_at(g, node, norm_fn=None):
    """canonical atoms known to hold whenever CFG node `node` executes (from the dominating branch edges).
    returns a list of (text, polarity, branch_node)."""
    out = []
    for test, pol, br in g.dominating_conditions(node):
        if pol not in ("true", "false"):
            continue
        for t, p in atoms_of(test, pol == "true", norm_fn):
            out.append((t, p, br))
    return out


def has_atom(atoms, text, pol):
    return any(t == text and p == pol for t, p, _ in atoms)


def local_aliases(fnode):
    """{name: attribute-chain text} for locals assigned exactly once (plain `name = a.b.c`) in the function:
    pure renamings of a global table or attribute, which rules must look through."""
    counts = {}
    for n in walk_no_nested(fnode):
        for t in stmt_targets(n) if isinstance(n, (ast.Assign, ast.AugAssign, ast.AnnAssign, ast.For, ast.Delete)) else []:
            if isinstance(t, ast.Name):
                counts.setdefault(t.id, []).append(n)
    out = {}
    for name, sts in counts.items():
        if len(sts) == 1 and isinstance(sts[0], ast.Assign) and len(sts[0].targets) == 1 and attr_chain(sts[0].value) is not None \
                and isinstance(sts[0].value, ast.Attribute):
            out[name] = unparse(sts[0].value)
    return out


def xtext(node, aliases):
    """source text of an expression with local aliases (see local_aliases) expanded."""
    if not aliases:
        return unparse(node)

    class T(ast.NodeTransformer):
        def visit_Name(self, n):
            if isinstance(n.ctx, ast.Load) and n.id in aliases:
                return ast.parse(aliases[n.id], mode="eval").body
            return n
    import copy
    return unparse(T().visit(copy.deepcopy(node)))


def is_selection_of(fnode, expr, source_text):
    """does `expr` denote a (filtered, order keeping) selection of the elements of <source_text>?
    accepted: [v for v in S if ...]; a local bound to such a comprehension; a local initialised [] and filled only by
    `.append(v)` inside `for v in S` (possibly under conditions)."""
    def comp_ok(c):
        return isinstance(c, ast.ListComp) and len(c.generators) == 1 and unparse(c.generators[0].iter) == source_text \
            and isinstance(c.generators[0].target, ast.Name) and unparse(c.elt) == c.generators[0].target.id
    if comp_ok(expr):
        return True
    if not isinstance(expr, ast.Name):
        return False
    defs = local_assignments(fnode, expr.id)
    if len(defs) != 1:
        return False
    if comp_ok(defs[0]):
        return True
    if not (isinstance(defs[0], ast.List) and not defs[0].elts):
        return False
    uses = [c for c in calls_in(fnode) if isinstance(c.func, ast.Attribute) and isinstance(c.func.value, ast.Name) and c.func.value.id == expr.id
            and c.func.attr in ("append", "extend", "insert", "remove", "pop", "sort", "reverse", "clear")]
    if not uses or any(c.func.attr != "append" for c in uses):
        return False
    for c in uses:
        ok = False
        for loop in ast.walk(fnode):
            if isinstance(loop, ast.For) and isinstance(loop.target, ast.Name) and unparse(loop.iter) == source_text \
                    and any(y is c for y in ast.walk(loop)) and len(c.args) == 1 and unparse(c.args[0]) == loop.target.id:
                ok = True
        if not ok:
            return False
    return True


def value_cases(value, atoms=()):
    """[(expr, atoms)] of a (possibly conditional / `a or b`) value expression: the alternatives it can evaluate to, each with
    the canonical atoms that select it."""
    if isinstance(value, ast.IfExp):
        return value_cases(value.body, tuple(atoms) + tuple(atoms_of(value.test, True))) + \
            value_cases(value.orelse, tuple(atoms) + tuple(atoms_of(value.test, False)))
    if isinstance(value, ast.BoolOp) and isinstance(value.op, ast.Or) and len(value.values) == 2:
        return [(value.values[0], tuple(atoms) + tuple(atoms_of(value.values[0], True)))] + \
            value_cases(value.values[1], tuple(atoms) + tuple(atoms_of(value.values[0], False)))
    return [(value, tuple(atoms))]


def template_parts(func, expr, depth=0):
    """text template denoted by expr as a list of ('lit', text) / ('hole', expression) parts, whatever the spelling
    (%-format of a constant, f-string, str.format with plain fields, + concatenation, a local bound once); None if unknown"""
    if depth > 6:
        return None
    if isinstance(expr, ast.Constant) and isinstance(expr.value, str):
        return [("lit", expr.value)]
    if isinstance(expr, ast.Name):
        defs = local_assignments(func.node, expr.id) if func is not None else []
        if len(defs) == 1:
            return template_parts(func, defs[0], depth + 1)
        return [("hole", expr)]
    if isinstance(expr, ast.JoinedStr):
        out = []
        for p0 in expr.values:
            if isinstance(p0, ast.Constant):
                out.append(("lit", str(p0.value)))
            elif isinstance(p0, ast.FormattedValue) and p0.format_spec is None and p0.conversion in (-1, 115):
                sub = template_parts(func, p0.value, depth + 1)
                if sub is None:
                    return None
                out += sub
            else:
                return None
        return _merge_lits(out)
    if isinstance(expr, ast.BinOp) and isinstance(expr.op, ast.Add):
        l, r = template_parts(func, expr.left, depth + 1), template_parts(func, expr.right, depth + 1)
        return None if l is None or r is None else _merge_lits(l + r)
    if isinstance(expr, ast.BinOp) and isinstance(expr.op, ast.Mod) and isinstance(expr.left, ast.Constant) and isinstance(expr.left.value, str):
        fmt = expr.left.value
        args = expr.right.elts if isinstance(expr.right, ast.Tuple) else [expr.right]
        if fmt.count("%s") != len(args) or fmt.count("%") != len(args):
            return None
        pieces = fmt.split("%s")
        out = []
        for i, piece in enumerate(pieces):
            out.append(("lit", piece))
            if i < len(args):
                sub = template_parts(func, args[i], depth + 1)
                if sub is None:
                    return None
                out += sub
        return _merge_lits(out)
    if isinstance(expr, ast.Call) and isinstance(expr.func, ast.Attribute) and expr.func.attr == "format" and not expr.keywords \
            and isinstance(expr.func.value, ast.Constant) and isinstance(expr.func.value.value, str):
        fmt = expr.func.value.value
        if fmt.count("{}") != len(expr.args) or fmt.count("{") != len(expr.args) or fmt.count("}") != len(expr.args):
            return None
        pieces = fmt.split("{}")
        out = []
        for i, piece in enumerate(pieces):
            out.append(("lit", piece))
            if i < len(expr.args):
                sub = template_parts(func, expr.args[i], depth + 1)
                if sub is None:
                    return None
                out += sub
        return _merge_lits(out)
    return [("hole", expr)]


def _merge_lits(parts):
    out = []
    for k, v in parts:
        if k == "lit" and v == "":
            continue
        if k == "lit" and out and out[-1][0] == "lit":
            out[-1] = ("lit", out[-1][1] + v)
        else:
            out.append((k, v))
    return out


def bound_args(call, params):
    """argument expressions of `call` in the order of the callee's parameter names `params` (positional ones first, keywords
    by name); None for a parameter that gets no explicit argument, or the whole result None for *args / **kwargs calls"""
    if any(isinstance(a, ast.Starred) for a in call.args) or any(k.arg is None for k in call.keywords):
        return None
    out = [None] * len(params)
    for i, a in enumerate(call.args):
        if i >= len(params):
            return None
        out[i] = a
    for k in call.keywords:
        if k.arg not in params:
            return None
        out[params.index(k.arg)] = k.value
    return out
