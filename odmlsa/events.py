"""Evaluation-order events of a CFG node.

Each event is a dict: {'kind', 'ast', ...}
  call        a Call expression (after its arguments)                     ast = Call
  store_attr  x.attr = v  (after v)                                       ast = Attribute target, 'value'
  store_sub   x[k] = v                                                    ast = Subscript target, 'value'
  store_name  local/global rebinding                                      ast = Name
  del_attr / del_sub
  aug_attr / aug_sub / aug_name   augmented assignment
  load_prop   attribute load that may run a non-trivial property getter   ast = Attribute
  contains    `a in b` / `a not in b`                                     ast = Compare, 'container'
  iter        iteration over an expression (for header, comprehension)    ast = iter expr
  raise       explicit raise                                              ast = Raise
  lazy        marks that the following events up to 'lazy_end' run lazily (generator expression)
Events carry 'conditional': True when they sit in a short-circuit operand, a conditional
expression branch or a comprehension body (may not execute).
"""
import ast


def _walk_expr(e, out, cond=False, lazy=False, guards=()):
    """guards: ((test expression, polarity), ...) - the short-circuit / conditional expression tests under which e is evaluated"""
    if e is None:
        return
    if isinstance(e, ast.Call):
        _walk_expr(e.func, out, cond, lazy, guards)
        for a in e.args:
            _walk_expr(a.value if isinstance(a, ast.Starred) else a, out, cond, lazy, guards)
        for k in e.keywords:
            _walk_expr(k.value, out, cond, lazy, guards)
        out.append({"kind": "call", "ast": e, "conditional": cond, "lazy": lazy, "guards": guards})
    elif isinstance(e, ast.Attribute):
        _walk_expr(e.value, out, cond, lazy, guards)
        if isinstance(e.ctx, ast.Load):
            out.append({"kind": "load_prop", "ast": e, "conditional": cond, "lazy": lazy, "guards": guards})
    elif isinstance(e, ast.Subscript):
        _walk_expr(e.value, out, cond, lazy, guards)
        _walk_expr(e.slice, out, cond, lazy, guards)
        if isinstance(e.ctx, ast.Load):
            out.append({"kind": "load_sub", "ast": e, "conditional": cond, "lazy": lazy, "guards": guards})
    elif isinstance(e, ast.Slice):
        for x in (e.lower, e.upper, e.step):
            _walk_expr(x, out, cond, lazy, guards)
    elif isinstance(e, ast.BoolOp):
        pol = isinstance(e.op, ast.And)
        for i, v in enumerate(e.values):
            _walk_expr(v, out, cond or i > 0, lazy, guards + tuple((w, pol) for w in e.values[:i]))
    elif isinstance(e, ast.IfExp):
        _walk_expr(e.test, out, cond, lazy, guards)
        _walk_expr(e.body, out, True, lazy, guards + ((e.test, True),))
        _walk_expr(e.orelse, out, True, lazy, guards + ((e.test, False),))
    elif isinstance(e, ast.Compare):
        _walk_expr(e.left, out, cond, lazy, guards)
        left = e.left
        for op, c in zip(e.ops, e.comparators):
            _walk_expr(c, out, cond, lazy, guards)
            if isinstance(op, (ast.In, ast.NotIn)):
                out.append({"kind": "contains", "ast": e, "item": left, "container": c, "conditional": cond, "lazy": lazy, "guards": guards})
            elif isinstance(op, (ast.Eq, ast.NotEq)):
                out.append({"kind": "eq", "ast": e, "left": left, "right": c, "conditional": cond, "lazy": lazy, "guards": guards})
            left = c
    elif isinstance(e, (ast.ListComp, ast.SetComp, ast.GeneratorExp, ast.DictComp)):
        lz = lazy or isinstance(e, ast.GeneratorExp)
        for i, gen in enumerate(e.generators):
            _walk_expr(gen.iter, out, cond or i > 0, lz if i > 0 else lazy)
            out.append({"kind": "iter", "ast": gen.iter, "conditional": cond, "lazy": lz, "target": gen.target})
            for c in gen.ifs:
                _walk_expr(c, out, True, lz)
        if isinstance(e, ast.DictComp):
            _walk_expr(e.key, out, True, lz)
            _walk_expr(e.value, out, True, lz)
        else:
            _walk_expr(e.elt, out, True, lz)
    elif isinstance(e, ast.Lambda):
        return   # body runs when called, by whoever calls it
    elif isinstance(e, (ast.Yield, ast.YieldFrom, ast.Await)):
        _walk_expr(e.value, out, cond, lazy, guards)
        out.append({"kind": "yield", "ast": e, "conditional": cond, "lazy": lazy, "guards": guards})
    elif isinstance(e, ast.NamedExpr):
        _walk_expr(e.value, out, cond, lazy, guards)
        out.append({"kind": "store_name", "ast": e.target, "value": e.value, "conditional": cond, "lazy": lazy, "guards": guards})
    else:
        for c in ast.iter_child_nodes(e):
            if isinstance(c, ast.expr):
                _walk_expr(c, out, cond, lazy, guards)
            elif isinstance(c, ast.keyword):
                _walk_expr(c.value, out, cond, lazy, guards)


def _store(t, value, out, kind_prefix="store"):
    if isinstance(t, ast.Attribute):
        _walk_expr(t.value, out)
        out.append({"kind": kind_prefix + "_attr", "ast": t, "value": value, "conditional": False, "lazy": False})
    elif isinstance(t, ast.Subscript):
        _walk_expr(t.value, out)
        _walk_expr(t.slice, out)
        out.append({"kind": kind_prefix + "_sub", "ast": t, "value": value, "conditional": False, "lazy": False})
    elif isinstance(t, ast.Name):
        out.append({"kind": kind_prefix + "_name", "ast": t, "value": value, "conditional": False, "lazy": False})
    elif isinstance(t, (ast.Tuple, ast.List)):
        for x in t.elts:
            _store(x, None, out, kind_prefix)
    elif isinstance(t, ast.Starred):
        _store(t.value, None, out, kind_prefix)


def node_events(node):
    out = []
    k = node.kind
    st = node.ast
    if k == "stmt":
        if isinstance(st, ast.Assign):
            _walk_expr(st.value, out)
            for t in st.targets:
                _store(t, st.value, out)
        elif isinstance(st, ast.AugAssign):
            _walk_expr(st.value, out)
            _store(st.target, st.value, out, "aug")
        elif isinstance(st, ast.AnnAssign):
            if st.value is not None:
                _walk_expr(st.value, out)
                _store(st.target, st.value, out)
        elif isinstance(st, ast.Delete):
            for t in st.targets:
                _store(t, None, out, "del")
        elif isinstance(st, ast.Expr):
            _walk_expr(st.value, out)
        elif isinstance(st, (ast.Import, ast.ImportFrom, ast.Pass, ast.Global, ast.Nonlocal, ast.Break, ast.Continue,
                             ast.FunctionDef, ast.ClassDef, ast.AsyncFunctionDef)):
            pass
        else:
            for c in ast.iter_child_nodes(st):
                if isinstance(c, ast.expr):
                    _walk_expr(c, out)
    elif k == "branch":
        _walk_expr(st.test, out)
        if node.info.get("assert"):
            out.append({"kind": "raise", "ast": st, "conditional": True, "lazy": False, "exc": "AssertionError"})
    elif k == "for":
        _walk_expr(st.iter, out)
        out.append({"kind": "iter", "ast": st.iter, "conditional": False, "lazy": False, "target": st.target})
    elif k == "return":
        if st.value is not None:
            _walk_expr(st.value, out)
    elif k == "raise":
        if st.exc is not None:
            _walk_expr(st.exc, out)
        out.append({"kind": "raise", "ast": st, "conditional": False, "lazy": False})
    elif k == "with":
        item = node.info["item"]
        _walk_expr(item.context_expr, out)
        if item.optional_vars is not None:
            _store(item.optional_vars, item.context_expr, out)
    return out
