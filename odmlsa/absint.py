"""Finite abstract interpretation of small, side-effect free functions.

The four cardinality functions of python-odml only *compare* and *type-test* their
inputs.  Their behaviour is therefore determined by the order type of the input
(which of None / negative / zero / a<b / a=b / a>b / one- vs two-digit text / not an
int at all ...).  This module walks the function's AST over one representative per
order type.  It is odmlsa's own evaluator over a whitelisted fragment of Python; the
repository module is never imported or executed.  Anything outside the fragment
raises Undecided (reported as ANALYSIS-ERROR, never as a pass).
"""
import ast

from .model import unparse


class Undecided(Exception):
    pass


class Raised(Exception):
    """the interpreted function raised an exception of class `cls`."""
    def __init__(self, cls, msg=""):
        Exception.__init__(self, "%s(%s)" % (cls, msg))
        self.cls = cls


class _Return(Exception):
    def __init__(self, value):
        self.value = value


class Opaque(object):
    """a value the analysis does not look into (message strings, odML objects)."""
    def __init__(self, label, fields=None):
        self.label = label
        self.fields = fields or {}

    def __repr__(self):
        return "<%s>" % self.label


class ListOfLen(list):
    """an abstract child list of a given length (elements are irrelevant)."""


TYPE_NAMES = {"int": int, "str": str, "tuple": tuple, "list": list, "float": float,
              "bool": bool, "dict": dict}
SAFE_STR_METHODS = ("strip", "split", "isdigit", "lower", "upper", "startswith", "endswith",
                    "replace", "capitalize", "lstrip", "rstrip", "count", "find")
EXC_PARENTS = {"ValueError": ("ValueError", "Exception", "BaseException"),
               "TypeError": ("TypeError", "Exception", "BaseException"),
               "IndexError": ("IndexError", "LookupError", "Exception", "BaseException"),
               "KeyError": ("KeyError", "LookupError", "Exception", "BaseException"),
               "AttributeError": ("AttributeError", "Exception", "BaseException")}


class Interp(object):
    def __init__(self, func_node, module_env=None, builtins=None, max_steps=4000, module_funcs=None, module_assigns=None):
        self.fn = func_node
        self.module_env = module_env or {}
        self.builtins = builtins or {}
        self.module_funcs = module_funcs or {}      # name -> FunctionDef of the same module (private helpers are interpreted too)
        self.module_assigns = module_assigns or {}  # name -> value AST of a module level assignment (evaluated on first use)
        self._module_busy = set()
        self.steps = 0
        self.max_steps = max_steps

    # ------------------------------------------------------------------ entry
    def call(self, *args, **kwargs):
        a = self.fn.args
        params = [x.arg for x in a.args]
        env = {}
        defaults = a.defaults
        for p, d in zip(params[len(params) - len(defaults):], defaults):
            env[p] = self.expr(d, {})
        for p, v in zip(params, args):
            env[p] = v
        for k, v in kwargs.items():
            if k not in params:
                raise Undecided("unexpected keyword %s" % k)
            env[k] = v
        for p in params:
            if p not in env:
                raise Undecided("missing argument %s" % p)
        try:
            self.block(self.fn.body, env)
        except _Return as r:
            return r.value
        return None

    def tick(self):
        self.steps += 1
        if self.steps > self.max_steps:
            raise Undecided("step limit exceeded (non-terminating or too large)")

    # ------------------------------------------------------------- statements
    def block(self, stmts, env):
        for st in stmts:
            self.stmt(st, env)

    def stmt(self, st, env):
        self.tick()
        if isinstance(st, ast.Expr):
            if isinstance(st.value, ast.Constant):
                return
            self.expr(st.value, env)
        elif isinstance(st, ast.Assign):
            v = self.expr(st.value, env)
            for t in st.targets:
                self.assign(t, v, env)
        elif isinstance(st, ast.AugAssign):
            cur = self.expr(ast.Name(id=st.target.id, ctx=ast.Load()), env) if isinstance(st.target, ast.Name) else None
            if cur is None and not isinstance(st.target, ast.Name):
                raise Undecided("augmented assignment to %s" % unparse(st.target))
            v = self.binop(st.op, cur, self.expr(st.value, env))
            env[st.target.id] = v
        elif isinstance(st, ast.If):
            if self.truth(self.expr(st.test, env)):
                self.block(st.body, env)
            else:
                self.block(st.orelse, env)
        elif isinstance(st, ast.Return):
            raise _Return(self.expr(st.value, env) if st.value is not None else None)
        elif isinstance(st, ast.Raise):
            if st.exc is None:
                raise Undecided("bare raise")
            e = st.exc
            name = unparse(e.func) if isinstance(e, ast.Call) else unparse(e)
            if isinstance(e, ast.Call):
                for a in e.args:
                    self.expr(a, env)
            raise Raised(name.split(".")[-1])
        elif isinstance(st, ast.Pass):
            return
        elif isinstance(st, ast.FunctionDef):
            # a local helper: a closure over the current bindings
            env[st.name] = ("localfunc", st, env)
        elif isinstance(st, ast.For):
            it = self.expr(st.iter, env)
            if not isinstance(it, (list, tuple, str)) or isinstance(it, ListOfLen):
                raise Undecided("loop over %r" % (it,))
            for x in list(it):
                self.assign(st.target, x, env)
                self.block(st.body, env)
            self.block(st.orelse, env)
        elif isinstance(st, ast.Try):
            try:
                self.block(st.body, env)
            except Raised as exc:
                for h in st.handlers:
                    names = ["*"] if h.type is None else (
                        [unparse(x) for x in h.type.elts] if isinstance(h.type, ast.Tuple) else [unparse(h.type)])
                    if "*" in names or any(n.split(".")[-1] in EXC_PARENTS.get(exc.cls, (exc.cls, "Exception", "BaseException"))
                                           for n in names):
                        if h.name:
                            env[h.name] = Opaque("exception")
                        self.block(h.body, env)
                        break
                else:
                    raise
            else:
                self.block(st.orelse, env)
            finally:
                if st.finalbody:
                    self.block(st.finalbody, env)
        else:
            raise Undecided("statement %s" % type(st).__name__)

    def assign(self, t, v, env):
        if isinstance(t, ast.Name):
            env[t.id] = v
        elif isinstance(t, (ast.Tuple, ast.List)):
            if not isinstance(v, (tuple, list)) or isinstance(v, ListOfLen):
                raise Raised("TypeError", "cannot unpack")
            if len(v) != len(t.elts):
                raise Raised("ValueError", "unpack length")
            for tt, vv in zip(t.elts, v):
                self.assign(tt, vv, env)
        else:
            raise Undecided("assignment target %s" % unparse(t))

    # ------------------------------------------------------------ expressions
    def truth(self, v):
        if isinstance(v, Opaque):
            return True
        return bool(v)

    def expr(self, e, env):
        self.tick()
        if isinstance(e, ast.Constant):
            return e.value
        if isinstance(e, ast.Name):
            if e.id in env:
                return env[e.id]
            if getattr(self, "closure", None) is not None and e.id in self.closure:
                return self.closure[e.id]
            if e.id in self.module_env:
                return self.module_env[e.id]
            if e.id in self.module_funcs:
                return ("func", e.id)
            if e.id in self.module_assigns and e.id not in self._module_busy:
                # a module level constant (message text, operator.itemgetter(..), functools.partial(..)): evaluated in module scope
                self._module_busy.add(e.id)
                try:
                    v = self.expr(self.module_assigns[e.id], {})
                finally:
                    self._module_busy.discard(e.id)
                self.module_env[e.id] = v
                return v
            if e.id in ("itemgetter", "attrgetter", "partial"):
                return ("builtin", e.id)
            if e.id in ("True", "False", "None"):
                return {"True": True, "False": False, "None": None}[e.id]
            if e.id in TYPE_NAMES or e.id in self.builtins or e.id in ("len", "isinstance", "str", "int", "getattr", "any", "all",
                                                                       "bool", "list", "tuple", "hasattr"):
                return ("builtin", e.id)
            raise Undecided("unknown name %s" % e.id)
        if isinstance(e, ast.Tuple):
            return tuple(self.expr(x, env) for x in e.elts)
        if isinstance(e, ast.List):
            return [self.expr(x, env) for x in e.elts]
        if isinstance(e, ast.BoolOp):
            v = None
            for x in e.values:
                v = self.expr(x, env)
                if isinstance(e.op, ast.And) and not self.truth(v):
                    return v
                if isinstance(e.op, ast.Or) and self.truth(v):
                    return v
            return v
        if isinstance(e, ast.UnaryOp):
            v = self.expr(e.operand, env)
            if isinstance(e.op, ast.Not):
                return not self.truth(v)
            if isinstance(e.op, ast.USub) and isinstance(v, (int, float)):
                return -v
            raise Undecided("unary %s" % unparse(e))
        if isinstance(e, ast.IfExp):
            return self.expr(e.body, env) if self.truth(self.expr(e.test, env)) else self.expr(e.orelse, env)
        if isinstance(e, ast.Compare):
            left = self.expr(e.left, env)
            for op, rn in zip(e.ops, e.comparators):
                right = self.expr(rn, env)
                if not self.compare(op, left, right):
                    return False
                left = right
            return True
        if isinstance(e, ast.BinOp):
            return self.binop(e.op, self.expr(e.left, env), self.expr(e.right, env))
        if isinstance(e, ast.Subscript):
            base = self.expr(e.value, env)
            if isinstance(base, Opaque) or isinstance(base, ListOfLen):
                raise Undecided("subscript of %r" % (base,))
            if not isinstance(base, (tuple, list, str)):
                raise Raised("TypeError", "not subscriptable")
            sl = e.slice
            if isinstance(sl, ast.Slice):
                lo = self.expr(sl.lower, env) if sl.lower is not None else None
                hi = self.expr(sl.upper, env) if sl.upper is not None else None
                if sl.step is not None:
                    raise Undecided("slice step")
                return base[lo:hi]
            idx = self.expr(sl, env)
            if not isinstance(idx, int):
                raise Undecided("index %r" % (idx,))
            try:
                return base[idx]
            except IndexError:
                raise Raised("IndexError")
        if isinstance(e, ast.Attribute):
            if isinstance(e.value, ast.Name) and e.value.id in ("operator", "functools") and e.attr in ("itemgetter", "attrgetter", "partial") \
                    and e.value.id not in env:
                return ("builtin", e.attr)
            base = self.expr(e.value, env)
            if isinstance(base, Opaque):
                if e.attr in base.fields:
                    return base.fields[e.attr]
                return Opaque("%s.%s" % (base.label, e.attr))
            if isinstance(base, str) and e.attr in SAFE_STR_METHODS:
                return ("strmethod", base, e.attr)
            if base is None or isinstance(base, (int, float, tuple, list)):
                if isinstance(base, (int, float, tuple, list, type(None))) and not hasattr(base, e.attr):
                    raise Raised("AttributeError", e.attr)
            raise Undecided("attribute %s of %r" % (e.attr, base))
        if isinstance(e, ast.Call):
            return self.call_expr(e, env)
        if isinstance(e, ast.JoinedStr):
            return Opaque("fstring")
        if isinstance(e, ast.Lambda):
            return ("lambda", e, dict(env))
        if isinstance(e, (ast.ListComp, ast.GeneratorExp)):
            # evaluated eagerly over concrete sequences (the functions interpreted here consume what they build)
            out = []

            def gen(i, env2):
                if i == len(e.generators):
                    out.append(self.expr(e.elt, env2))
                    return
                g0 = e.generators[i]
                it = self.expr(g0.iter, env2)
                if not isinstance(it, (list, tuple, str)) or isinstance(it, ListOfLen):
                    raise Undecided("comprehension over %r" % (it,))
                for v in it:
                    self.tick()
                    env3 = dict(env2)
                    self.assign(g0.target, v, env3)
                    if all(self.truth(self.expr(c, env3)) for c in g0.ifs):
                        gen(i + 1, env3)
            gen(0, dict(env))
            return out
        raise Undecided("expression %s" % type(e).__name__)

    def _apply(self, f, args, kwargs, e=None):
        """call of an interpreted module function / a partial of one"""
        if isinstance(f, tuple) and f and f[0] == "partial":
            _, inner, pargs, pkw = f
            kw2 = dict(pkw)
            kw2.update(kwargs)
            return self._apply(inner, list(pargs) + list(args), kw2, e)
        if isinstance(f, tuple) and f and f[0] == "lambda":
            _, lam, cenv = f
            a = lam.args
            if a.vararg or a.kwarg or a.kwonlyargs or kwargs:
                raise Undecided("lambda with keyword / star parameters")
            names = [x.arg for x in a.posonlyargs + a.args]
            env2 = dict(cenv)
            for p0, d in zip(names[len(names) - len(a.defaults):], a.defaults):
                env2[p0] = self.expr(d, cenv)
            if len(args) > len(names):
                raise Raised("TypeError", "lambda arguments")
            for p0, v in zip(names, args):
                env2[p0] = v
            if any(p0 not in env2 for p0 in names):
                raise Raised("TypeError", "lambda arguments")
            return self.expr(lam.body, env2)
        if isinstance(f, tuple) and f and f[0] == "localfunc":
            _, fn, cenv = f
            sub = Interp(fn, self.module_env, self.builtins, self.max_steps, self.module_funcs, self.module_assigns)
            sub.closure = cenv
            sub.steps = self.steps
            try:
                return sub.call(*args, **dict(kwargs))
            finally:
                self.steps = sub.steps
        if isinstance(f, tuple) and f and f[0] == "func":
            sub = Interp(self.module_funcs[f[1]], self.module_env, self.builtins, self.max_steps, self.module_funcs, self.module_assigns)
            sub.steps = self.steps
            try:
                return sub.call(*args, **dict(kwargs))
            finally:
                self.steps = sub.steps
        if isinstance(f, tuple) and f and f[0] == "builtin" and f[1] in self.builtins:
            return self.builtins[f[1]](self, *args, **dict(kwargs))
        raise Undecided("call of %r" % (f,))

    def compare(self, op, a, b):
        if isinstance(op, ast.Is):
            return a is b or (a is None and b is None) or (isinstance(a, bool) and isinstance(b, bool) and a == b)
        if isinstance(op, ast.IsNot):
            return not self.compare(ast.Is(), a, b)
        if isinstance(a, Opaque) or isinstance(b, Opaque):
            raise Undecided("comparison with opaque value")
        if isinstance(op, ast.Eq):
            return a == b
        if isinstance(op, ast.NotEq):
            return a != b
        if isinstance(op, (ast.In, ast.NotIn)):
            if not isinstance(b, (tuple, list, str)):
                raise Raised("TypeError", "not iterable")
            if isinstance(b, str) and not isinstance(a, str):
                raise Raised("TypeError", "in <string> requires string")
            r = a in b
            return r if isinstance(op, ast.In) else not r
        # ordering: python refuses mixed types
        num = lambda x: isinstance(x, (int, float)) and not isinstance(x, bool) or isinstance(x, bool)
        if (num(a) and num(b)) or (isinstance(a, str) and isinstance(b, str)) or \
                (isinstance(a, (tuple, list)) and type(a) is type(b)):
            if isinstance(op, ast.Lt):
                return a < b
            if isinstance(op, ast.LtE):
                return a <= b
            if isinstance(op, ast.Gt):
                return a > b
            if isinstance(op, ast.GtE):
                return a >= b
        raise Raised("TypeError", "unorderable %r %r" % (a, b))

    def binop(self, op, a, b):
        if isinstance(op, ast.Mod) and isinstance(a, str):
            return Opaque("formatted")
        if isinstance(op, ast.Add) and (isinstance(a, Opaque) or isinstance(b, Opaque)):
            return Opaque("concat")
        if isinstance(a, Opaque) or isinstance(b, Opaque):
            raise Undecided("arithmetic on opaque value")
        try:
            if isinstance(op, ast.Add):
                return a + b
            if isinstance(op, ast.Sub):
                return a - b
            if isinstance(op, ast.Mult):
                return a * b
        except TypeError:
            raise Raised("TypeError")
        raise Undecided("operator %s" % type(op).__name__)

    def call_expr(self, e, env):
        if e.keywords and any(k.arg is None for k in e.keywords):
            raise Undecided("**kwargs call")
        f = self.expr(e.func, env)
        args = [self.expr(a, env) for a in e.args]
        kwargs = dict((k.arg, self.expr(k.value, env)) for k in e.keywords)
        if isinstance(f, tuple) and f and f[0] == "strmethod":
            _, s, name = f
            try:
                r = getattr(s, name)(*args)
            except TypeError:
                raise Raised("TypeError")
            return r
        if isinstance(f, tuple) and f and f[0] in ("lambda", "localfunc"):
            return self._apply(f, args, kwargs, e)
        if isinstance(f, tuple) and f and f[0] == "itemgetter":
            (x,) = args
            if not isinstance(x, (tuple, list, str)) or isinstance(x, ListOfLen):
                raise Undecided("itemgetter of %r" % (x,))
            try:
                vals = [x[i] for i in f[1]]
            except IndexError:
                raise Raised("IndexError")
            return vals[0] if len(vals) == 1 else tuple(vals)
        if isinstance(f, tuple) and f and f[0] == "partial":
            _, inner, pargs, pkw = f
            kw2 = dict(pkw)
            kw2.update(kwargs)
            return self._apply(inner, list(pargs) + args, kw2, e)
        if isinstance(f, tuple) and f and f[0] == "builtin":
            name = f[1]
            if name in self.builtins:
                return self.builtins[name](self, *args, **kwargs)
            if name == "itemgetter":
                if not args or not all(isinstance(a, int) for a in args):
                    raise Undecided("itemgetter(%r)" % (args,))
                return ("itemgetter", tuple(args))
            if name == "partial":
                if not args:
                    raise Undecided("partial()")
                return ("partial", args[0], tuple(args[1:]), tuple(sorted(kwargs.items())))
            if name == "isinstance":
                obj, t = args
                is_marker = lambda x: isinstance(x, tuple) and len(x) == 2 and x[0] == "builtin"
                ts = (t,) if is_marker(t) or not isinstance(t, tuple) else t
                pyts = []
                for x in ts:
                    if isinstance(x, tuple) and x[0] == "builtin" and x[1] in TYPE_NAMES:
                        pyts.append(TYPE_NAMES[x[1]])
                    else:
                        raise Undecided("isinstance against %r" % (x,))
                if isinstance(obj, Opaque):
                    raise Undecided("isinstance of opaque")
                if isinstance(obj, ListOfLen):
                    return list in pyts
                return isinstance(obj, tuple(pyts))
            if name == "len":
                (x,) = args
                if isinstance(x, (tuple, list, str)):
                    return len(x)
                if isinstance(x, Opaque):
                    raise Undecided("len of opaque")
                raise Raised("TypeError", "len")
            if name == "int":
                (x,) = args
                if isinstance(x, bool) or isinstance(x, (int, float)):
                    return int(x)
                if isinstance(x, str):
                    try:
                        return int(x)
                    except ValueError:
                        raise Raised("ValueError", "int()")
                raise Raised("TypeError", "int()")
            if name == "str":
                (x,) = args
                if isinstance(x, Opaque):
                    return Opaque("str")
                return str(x)
            if name == "bool":
                return self.truth(args[0])
            if name in ("any", "all"):
                (x,) = args
                if isinstance(x, (list, tuple)) and not isinstance(x, ListOfLen):
                    vals = [self.truth(v) for v in x]
                    return any(vals) if name == "any" else all(vals)
                if isinstance(x, (str, int, float)) or x is None:
                    raise Raised("TypeError", name)
                raise Undecided("%s(%r)" % (name, x))
            if name in ("list", "tuple"):
                (x,) = args
                if isinstance(x, (list, tuple)) and not isinstance(x, ListOfLen):
                    return list(x) if name == "list" else tuple(x)
                raise Undecided("%s(%r)" % (name, x))
            raise Undecided("builtin %s" % name)
        if isinstance(f, tuple) and f and f[0] == "func":
            return self._apply(f, args, kwargs, e)
        if isinstance(f, Opaque):
            return Opaque("%s()" % f.label)
        raise Undecided("call of %s" % unparse(e.func))
