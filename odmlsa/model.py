"""Program model: modules, imports, classes (with MRO), functions, properties.

Everything is derived from a *source map* {relative path -> text}.  The production
run fills the map from /repo; self-tests fill it from /repo plus in-memory edits.
"""
import ast
import os

REPO = os.environ.get("ODMLSA_REPO", "/repo")
PKG = "odml"


class AnalysisError(Exception):
    """The checker itself cannot do its job (exit 2), never a violation claim."""


def load_sources(root=None):
    """Read every python file of the package (tests excluded) + data files used."""
    root = root or REPO
    out = {}
    pkg_root = os.path.join(root, PKG)
    if not os.path.isdir(pkg_root):
        raise AnalysisError("package directory %s not found" % pkg_root)
    for dirpath, dirnames, filenames in os.walk(pkg_root):
        dirnames[:] = [d for d in dirnames if d != "__pycache__"]
        for fn in sorted(filenames):
            if fn.endswith((".py", ".json", ".yaml", ".ttl")):
                full = os.path.join(dirpath, fn)
                rel = os.path.relpath(full, root)
                with open(full, encoding="utf-8") as fobj:
                    out[rel] = fobj.read()
    setup = os.path.join(root, "setup.py")
    if os.path.exists(setup):
        with open(setup, encoding="utf-8") as fobj:
            out["setup.py"] = fobj.read()
    return out


def unparse(node):
    try:
        return ast.unparse(node)
    except Exception:  # pragma: no cover
        return "<%s>" % type(node).__name__


class FuncInfo(object):
    def __init__(self, qualname, module, cls, name, node, kind):
        self.qualname = qualname
        self.module = module      # ModuleInfo
        self.cls = cls            # ClassInfo or None
        self.name = name          # plain name ('append', or property name for accessors)
        self.node = node
        self.kind = kind          # function|method|static|classmethod|getter|setter|deleter
        a = node.args
        self.params = [x.arg for x in getattr(a, "posonlyargs", [])] + [x.arg for x in a.args]
        self.vararg = a.vararg.arg if a.vararg else None
        self.kwarg = a.kwarg.arg if a.kwarg else None
        self.kwonly = [x.arg for x in a.kwonlyargs]
        # defaults aligned to the tail of params
        self.defaults = {}
        pos = self.params
        for p, d in zip(pos[len(pos) - len(a.defaults):], a.defaults):
            self.defaults[p] = d
        for p, d in zip(self.kwonly, a.kw_defaults):
            if d is not None:
                self.defaults[p] = d
        self.is_generator = any(isinstance(n, (ast.Yield, ast.YieldFrom))
                                for n in walk_no_nested(node))

    @property
    def has_self(self):
        return self.kind in ("method", "getter", "setter", "deleter", "classmethod")

    @property
    def short(self):
        q = self.qualname
        return q[len(PKG) + 1:] if q.startswith(PKG + ".") else q

    @property
    def where(self):
        return "%s:%d" % (self.module.path, self.node.lineno)

    def __repr__(self):
        return "<Func %s>" % self.qualname


def walk_no_nested(fnode):
    """Walk a function body without entering nested function/class definitions
    (lambdas are entered: they are expressions evaluated lazily, callers decide)."""
    stack = list(fnode.body)
    while stack:
        n = stack.pop()
        yield n
        for c in ast.iter_child_nodes(n):
            if isinstance(c, (ast.FunctionDef, ast.AsyncFunctionDef, ast.ClassDef)):
                continue
            stack.append(c)


class ClassInfo(object):
    def __init__(self, qualname, module, node):
        self.qualname = qualname
        self.module = module
        self.name = node.name
        self.node = node
        self.base_exprs = node.bases
        self.bases = []          # resolved: ClassInfo or external dotted-name string
        self.mro = []            # list of ClassInfo (repo classes only) + external names at end
        self.methods = {}        # name -> FuncInfo (plain/static/class methods)
        self.props = {}          # name -> {'getter':F,'setter':F,'deleter':F}
        self.attrs = {}          # class-level simple assignments name -> ast value
        self.subclasses = set()  # transitive, filled by Program

    def __repr__(self):
        return "<Class %s>" % self.qualname

    def lookup_method(self, name):
        for c in self.mro:
            if isinstance(c, ClassInfo) and name in c.methods:
                return c.methods[name]
        # a private method that never needed its instance may have been moved to module level (roles.py restored its name)
        for c in self.mro:
            if isinstance(c, ClassInfo):
                for owner, now, cur, old in getattr(c.module, "restored_names", ()):
                    if old == name and owner == c.name and now == "" and name in c.module.functions:
                        return c.module.functions[name]
        return None

    def lookup_prop(self, name, which):
        """property accessor along the MRO; a subclass that redefines the property
        object without that accessor hides the base accessor (python semantics)."""
        for c in self.mro:
            if isinstance(c, ClassInfo) and name in c.props:
                return c.props[name].get(which)
            if isinstance(c, ClassInfo) and (name in c.methods or name in c.attrs):
                return None
        return None

    def has_prop(self, name):
        for c in self.mro:
            if isinstance(c, ClassInfo):
                if name in c.props:
                    return True
                if name in c.methods or name in c.attrs:
                    return False
        return False

    def lookup_attr(self, name):
        for c in self.mro:
            if isinstance(c, ClassInfo) and name in c.attrs:
                return c.attrs[name]
        return None

    def external_bases(self):
        return [c for c in self.mro if not isinstance(c, ClassInfo)]

    def is_subclass_of(self, other):
        return other in self.mro


class ModuleInfo(object):
    def __init__(self, name, path, text, sibling_source=None):
        self.name = name
        self.path = path
        self.text = text
        try:
            from .normalise import normalise
            from .roles import restore_names
            tree = ast.parse(text, filename=path)
            self.restored_names = restore_names(name, tree)      # renamed private helpers get the names the rules know
            self.tree = normalise(tree, name, sibling_source)
        except SyntaxError as exc:
            raise AnalysisError("syntax error in %s: %s" % (path, exc))
        self.is_package = path.endswith("__init__.py")
        self.imports = {}    # local name -> ('module', modname) | ('symbol', modname, name)
        self.assigns = {}    # top-level name -> list of ast value nodes (in order)
        self.functions = {}  # name -> FuncInfo
        self.classes = {}    # name -> ClassInfo
        self.toplevel_calls = []  # ast.Call nodes executed at import time (Expr statements)

    @property
    def package(self):
        return self.name if self.is_package else self.name.rsplit(".", 1)[0]


def _resolve_relative(mod, level, target):
    """absolute module name for `from <level dots><target> import ...` in module mod."""
    if level == 0:
        return target
    base = mod.package.split(".")
    if level > 1:
        base = base[:len(base) - (level - 1)]
    if target:
        base = base + target.split(".")
    return ".".join(base)


def collect_imports(mod, nodes, program=None):
    """Import map from a list of Import/ImportFrom nodes."""
    imports = {}
    for n in nodes:
        if isinstance(n, ast.Import):
            for a in n.names:
                if a.asname:
                    imports[a.asname] = ("module", a.name)
                else:
                    top = a.name.split(".")[0]
                    imports[top] = ("module", top)
        elif isinstance(n, ast.ImportFrom):
            src = _resolve_relative(mod, n.level, n.module)
            for a in n.names:
                local = a.asname or a.name
                imports[local] = ("from", src, a.name)
    return imports


class Program(object):
    def __init__(self, sources=None, root=None):
        self.sources = sources if sources is not None else load_sources(root)
        self.modules = {}
        self.classes = {}    # qualname -> ClassInfo
        self.functions = {}  # qualname -> FuncInfo
        self._build()

    def _sibling_source(self, dotted):
        """source text of another module of the package (for private definitions a module imports from its sibling)"""
        for rel in (dotted.replace(".", "/") + ".py", dotted.replace(".", "/") + "/__init__.py"):
            if rel in self.sources:
                return self.sources[rel]
        return None

    # ------------------------------------------------------------------ build
    def _build(self):
        for path, text in sorted(self.sources.items()):
            if not path.endswith(".py") or not path.startswith(PKG + "/"):
                continue
            name = path[:-3].replace("/", ".")
            if name.endswith(".__init__"):
                name = name[:-9]
            self.modules[name] = ModuleInfo(name, path, text, self._sibling_source)
        if PKG not in self.modules:
            raise AnalysisError("package %s has no __init__.py" % PKG)
        for mod in self.modules.values():
            self._index_module(mod)
        for cls in list(self.classes.values()):
            self._resolve_bases(cls)
        for cls in self.classes.values():
            cls.mro = self._c3(cls)
        for cls in self.classes.values():
            for c in cls.mro[1:]:
                if isinstance(c, ClassInfo):
                    c.subclasses.add(cls)

    def _index_module(self, mod):
        import_nodes = [n for n in ast.walk(mod.tree)
                        if isinstance(n, (ast.Import, ast.ImportFrom)) and self._at_module_level(mod, n)]
        mod.imports = collect_imports(mod, import_nodes)
        for node in self._toplevel_statements(mod.tree.body):
            if isinstance(node, ast.FunctionDef):
                f = FuncInfo("%s.%s" % (mod.name, node.name), mod, None, node.name, node, "function")
                mod.functions[node.name] = f
                self.functions[f.qualname] = f
            elif isinstance(node, ast.ClassDef):
                self._index_class(mod, node)
            elif isinstance(node, ast.Assign):
                for t in node.targets:
                    if isinstance(t, ast.Name):
                        mod.assigns.setdefault(t.id, []).append(node.value)
            elif isinstance(node, ast.Expr) and isinstance(node.value, ast.Call):
                mod.toplevel_calls.append(node.value)

    def _toplevel_statements(self, body):
        """module-level statements incl. those under try/if at module level,
        excluding the `if __name__ == '__main__'` block."""
        for node in body:
            if isinstance(node, ast.Try):
                for n in self._toplevel_statements(node.body):
                    yield n
                for h in node.handlers:
                    for n in self._toplevel_statements(h.body):
                        yield n
                for n in self._toplevel_statements(node.orelse + node.finalbody):
                    yield n
            elif isinstance(node, ast.If):
                if "__name__" in unparse(node.test):
                    continue
                for n in self._toplevel_statements(node.body + node.orelse):
                    yield n
            else:
                yield node

    def _at_module_level(self, mod, node):
        if not hasattr(mod, "_fn_nodes"):
            inside = set()
            for n in ast.walk(mod.tree):
                if isinstance(n, (ast.FunctionDef, ast.AsyncFunctionDef)):
                    for c in ast.walk(n):
                        if c is not n:
                            inside.add(id(c))
            mod._fn_nodes = inside
        return id(node) not in mod._fn_nodes

    def _index_class(self, mod, node):
        cls = ClassInfo("%s.%s" % (mod.name, node.name), mod, node)
        mod.classes[node.name] = cls
        self.classes[cls.qualname] = cls
        for item in node.body:
            if isinstance(item, ast.FunctionDef):
                kind = "method"
                prop_name = None
                for dec in item.decorator_list:
                    d = unparse(dec)
                    if d == "staticmethod":
                        kind = "static"
                    elif d == "classmethod":
                        kind = "classmethod"
                    elif d in ("property", "_property"):
                        kind = "getter"
                        prop_name = item.name
                    elif d.endswith(".setter") or d.endswith(".deleter") or d.endswith(".getter"):
                        kind = d.rsplit(".", 1)[1]
                        prop_name = item.name
                        if d.count(".") > 1:
                            # cross-class form @base.Sectionable.repository.setter:
                            # creates a new property object in this class which
                            # copies the other accessors from the base property.
                            cls._cross_prop = getattr(cls, "_cross_prop", {})
                            cls._cross_prop[item.name] = d.rsplit(".", 1)[0]
                if prop_name is not None:
                    qn = "%s.%s.%s" % (cls.qualname, prop_name, kind)
                    f = FuncInfo(qn, mod, cls, prop_name, item, kind)
                    cls.props.setdefault(prop_name, {})[kind] = f
                else:
                    qn = "%s.%s" % (cls.qualname, item.name)
                    f = FuncInfo(qn, mod, cls, item.name, item, kind)
                    cls.methods[item.name] = f
                self.functions[qn] = f
            elif isinstance(item, ast.Assign):
                for t in item.targets:
                    if isinstance(t, ast.Name):
                        cls.attrs[t.id] = item.value

    def _resolve_bases(self, cls):
        cls.bases = []
        for b in cls.base_exprs:
            r = self.resolve_expr_to_symbol(cls.module, b)
            if isinstance(r, ClassInfo):
                cls.bases.append(r)
            else:
                cls.bases.append(unparse(b))
        # complete cross-class properties with the base accessors
        for pname, base_expr in getattr(cls, "_cross_prop", {}).items():
            for b in cls.bases:
                if isinstance(b, ClassInfo):
                    for c in [b] + [x for x in self._linear(b)]:
                        if isinstance(c, ClassInfo) and pname in c.props:
                            for which, f in c.props[pname].items():
                                cls.props[pname].setdefault(which, f)
                            break

    def _linear(self, cls):
        out = []
        for b in cls.bases:
            if isinstance(b, ClassInfo):
                out.append(b)
                out.extend(self._linear(b))
        return out

    def _c3(self, cls):
        def merge(seqs):
            res = []
            seqs = [list(s) for s in seqs if s]
            while seqs:
                for s in seqs:
                    cand = s[0]
                    if not any(cand in t[1:] for t in seqs):
                        break
                else:
                    raise AnalysisError("inconsistent MRO for %s" % cls.qualname)
                res.append(cand)
                seqs = [[x for x in s if x is not cand] if s[0] is cand else s for s in seqs]
                seqs = [[x for x in s if x != cand] for s in seqs]
                seqs = [s for s in seqs if s]
            return res
        parents = []
        for b in cls.bases:
            if isinstance(b, ClassInfo):
                parents.append(self._c3(b))
            else:
                parents.append([b])
        return [cls] + merge(parents + [list(cls.bases)])

    # ------------------------------------------------------------- resolution
    def resolve_import(self, entry):
        """('module', m) | ('from', m, name) -> ModuleInfo | ClassInfo | FuncInfo |
        ('const', module, name) | ('external', dotted)"""
        if entry[0] == "module":
            m = entry[1]
            if m in self.modules:
                return self.modules[m]
            return ("external", m)
        _, src, name = entry
        return self.resolve_symbol(src, name)

    def resolve_symbol(self, modname, name, _depth=0):
        if _depth > 8:
            return ("external", "%s.%s" % (modname, name))
        sub = "%s.%s" % (modname, name)
        if modname not in self.modules:
            return ("external", sub)
        mod = self.modules[modname]
        # a name bound in the module wins over a submodule of the same name once
        # the module body ran; class then instance rebinding (format.py) is
        # reported as ('instance', ClassInfo).
        if name in mod.classes:
            cls = mod.classes[name]
            for v in mod.assigns.get(name, []):
                if isinstance(v, ast.Call) and unparse(v.func) == name:
                    return ("instance", cls)
            return cls
        if name in mod.functions:
            return mod.functions[name]
        if name in mod.assigns:
            vals = mod.assigns[name]
            last = vals[-1]
            # alias of a function / method: x = y  or x = obj.method
            if isinstance(last, ast.Name) and last.id != name:
                r = self.resolve_symbol(modname, last.id, _depth + 1)
                if not (isinstance(r, tuple) and r[0] == "external"):
                    return r
            return ("const", modname, name)
        if name in mod.imports:
            ent = mod.imports[name]
            if ent[0] == "module":
                return self.resolve_import(ent)
            return self.resolve_symbol(ent[1], ent[2], _depth + 1)
        if sub in self.modules:
            return self.modules[sub]
        return ("external", sub)

    def resolve_expr_to_symbol(self, mod, expr, local_imports=None):
        """Resolve a Name / dotted Attribute expression through the import maps."""
        parts = []
        e = expr
        while isinstance(e, ast.Attribute):
            parts.append(e.attr)
            e = e.value
        if not isinstance(e, ast.Name):
            return None
        parts.append(e.id)
        parts.reverse()
        head = parts[0]
        cur = None
        if local_imports and head in local_imports:
            cur = self.resolve_import(local_imports[head])
        elif head in mod.classes or head in mod.functions or head in mod.assigns:
            cur = self.resolve_symbol(mod.name, head)
        elif head in mod.imports:
            cur = self.resolve_import(mod.imports[head])
        else:
            return None
        for p in parts[1:]:
            if isinstance(cur, ModuleInfo):
                cur = self.resolve_symbol(cur.name, p)
            elif isinstance(cur, tuple) and cur[0] == "external":
                cur = ("external", cur[1] + "." + p)
            elif isinstance(cur, ClassInfo):
                m = cur.lookup_method(p)
                if m is not None:
                    cur = m
                elif cur.has_prop(p):
                    cur = ("property", cur, p)
                elif cur.lookup_attr(p) is not None:
                    cur = ("classattr", cur, p)
                else:
                    return None
            elif isinstance(cur, tuple) and cur[0] == "instance":
                m = cur[1].lookup_method(p)
                if m is not None:
                    cur = ("boundmethod", cur[1], m)
                elif cur[1].has_prop(p):
                    cur = ("instprop", cur[1], p)
                elif cur[1].lookup_attr(p) is not None:
                    cur = ("classattr", cur[1], p)
                else:
                    return None
            elif isinstance(cur, tuple) and cur[0] == "property" and p in ("fset", "fget", "fdel"):
                which = {"fset": "setter", "fget": "getter", "fdel": "deleter"}[p]
                cur = cur[1].lookup_prop(cur[2], which)
            else:
                return None
        return cur

    # ---------------------------------------------------------------- helpers
    def cls(self, short):
        """ClassInfo by short name (unique in this package) or qualname."""
        if short in self.classes:
            return self.classes[short]
        hits = [c for c in self.classes.values() if c.name == short]
        if len(hits) == 1:
            return hits[0]
        if not hits:
            raise AnalysisError("anchor class %s vanished" % short)
        raise AnalysisError("class name %s is ambiguous: %s" % (short, hits))

    def func(self, short):
        """FuncInfo by qualname relative to the package, e.g. 'base.Sectionable.append',
        'section.BaseSection.parent.setter', 'util.format_cardinality'."""
        qn = short if short.startswith(PKG + ".") else "%s.%s" % (PKG, short)
        if qn in self.functions:
            return self.functions[qn]
        modname, _, fname = qn.rpartition(".")
        # a private method moved to module level, or a module level private function moved into a class (roles.py)
        if modname in self.classes:
            m = self.classes[modname].lookup_method(fname)
            if m is not None:
                return m
        mod0 = self.modules.get(modname)
        if mod0 is not None:
            for owner, now, cur, old in getattr(mod0, "restored_names", ()):
                if old == fname and owner == "" and now in mod0.classes and fname in mod0.classes[now].methods:
                    return mod0.classes[now].methods[fname]
        # a module level function that was moved and is re-exported by an import of its old module
        mod = self.modules.get(modname)
        if mod is not None and fname in mod.imports:
            try:
                r = self.resolve_expr_to_symbol(mod, ast.Name(id=fname, ctx=ast.Load()))
            except Exception:
                r = None
            if isinstance(r, FuncInfo):
                return r
        raise AnalysisError("anchor function %s vanished" % short)

    def table_short(self, f):
        """short name under which the reviewed tables know f: a private method that was moved to module level (and got its
        name back from roles.py) is listed under its former class"""
        for owner, now, cur, old in getattr(f.module, "restored_names", ()):
            if old == f.name and now == "" and owner and f.cls is None:
                m = f.module.name[len(PKG) + 1:] if f.module.name.startswith(PKG + ".") else f.module.name
                return "%s.%s.%s" % (m, owner, old)
        return f.short

    def has_func(self, short):
        qn = short if short.startswith(PKG + ".") else "%s.%s" % (PKG, short)
        return qn in self.functions

    def all_functions(self):
        return [self.functions[k] for k in sorted(self.functions)]

    def module_of(self, short):
        qn = short if short.startswith(PKG) else "%s.%s" % (PKG, short)
        if qn not in self.modules:
            raise AnalysisError("anchor module %s vanished" % short)
        return self.modules[qn]


# ----------------------------------------------------------------------------------------------- canonical callee names
def _func_local_imports(prog, f):
    cache = prog.__dict__.setdefault("_local_imports", {})
    if f.qualname not in cache:
        nodes = [n for n in walk_no_nested(f.node) if isinstance(n, (ast.Import, ast.ImportFrom))]
        cache[f.qualname] = collect_imports(f.module, nodes) if nodes else {}
    return cache[f.qualname]


def canonical_name(prog, f_or_mod, expr):
    """import-style independent dotted name of a Name / Attribute expression:
    repository functions and classes -> their short qualified name ('util.format_cardinality', 'validation.Validation',
    'dtypes.get'); imported external objects -> their external dotted name ('uuid.uuid4', 'os.path.join', 'posixpath.dirname');
    anything else (locals, attributes of objects) -> the source text."""
    mod = getattr(f_or_mod, "module", f_or_mod)
    li = _func_local_imports(prog, f_or_mod) if hasattr(f_or_mod, "qualname") and hasattr(f_or_mod, "node") and hasattr(f_or_mod, "module") else None
    try:
        r = prog.resolve_expr_to_symbol(mod, expr, local_imports=li)
    except Exception:
        r = None
    if isinstance(r, FuncInfo):
        return r.short
    if isinstance(r, ClassInfo):
        q = r.module.name + "." + r.name
        return q[len(PKG) + 1:] if q.startswith(PKG + ".") else q
    if isinstance(r, ModuleInfo):
        return r.name[len(PKG) + 1:] if r.name.startswith(PKG + ".") else r.name
    if isinstance(r, tuple) and r and r[0] == "external":
        return r[1]
    if isinstance(r, tuple) and r and r[0] == "boundmethod":
        return r[2].short
    return unparse(expr)


def cname(prog, f_or_mod, call):
    """canonical_name of the callee of a Call node."""
    return canonical_name(prog, f_or_mod, call.func)
