"""Statement-level control-flow graphs with exception edges, dominators,
control dependence and bounded path enumeration.  Standard library only.

Node kinds
    entry, exit (normal return / fall off / generator abandoned), raise_exit
    stmt      simple statement (Assign, AugAssign, AnnAssign, Expr, Delete, Pass, Import..)
    branch    `if` / `while` / `assert` test               edges: true, false
    for       loop header                                  edges: iter, exhausted
    return    `return e`                                   edge : return -> exit (through finally)
    raise     `raise e` / bare `raise`                     edge : exc
    with      context expression evaluated, var bound      edge : seq
    withexit  leaving a with block (normal or exceptional)
    dispatch  exception dispatch of one try statement      edges: except (one per handler), exc (unhandled)
    handler   entry of an `except` clause (binds the name)
    join      structural no-op
Every node that evaluates an expression has an `exc` edge to the innermost
exception target (a dispatch node, a withexit node, a finally copy or raise_exit);
rules decide from summaries whether that edge is live.
"""
import ast

from .model import unparse

CATCH_ALL = ("Exception", "BaseException")


class Node(object):
    __slots__ = ("id", "kind", "ast", "lineno", "succ", "pred", "info", "try_depth")

    def __init__(self, nid, kind, node=None, info=None):
        self.id = nid
        self.kind = kind
        self.ast = node
        self.lineno = getattr(node, "lineno", 0) if node is not None else 0
        self.succ = []   # list of (edge_kind, Node)
        self.pred = []   # list of (edge_kind, Node)
        self.info = info or {}

    def __repr__(self):
        txt = ""
        if self.ast is not None and self.kind not in ("dispatch", "withexit", "join"):
            txt = unparse(self.ast).split("\n")[0][:60]
        return "<%d %s L%d %s>" % (self.id, self.kind, self.lineno, txt)

    def out(self, kind):
        return [n for k, n in self.succ if k == kind]

    def expr_roots(self):
        """AST expressions evaluated *at this node* (not in nested blocks)."""
        n = self.ast
        k = self.kind
        if k == "stmt":
            return [n]
        if k == "branch":
            return [n.test]
        if k == "for":
            return [n.iter]
        if k == "return":
            return [n.value] if n.value is not None else []
        if k == "raise":
            return [x for x in (n.exc, n.cause) if x is not None]
        if k == "with":
            return [self.info["item"].context_expr]
        return []


class CFG(object):
    def __init__(self, func):
        self.func = func            # FuncInfo or None
        self.nodes = []
        self.entry = self._new("entry")
        self.exit = self._new("exit")
        self.raise_exit = self._new("raise_exit")
        self._idom = None
        self._ipdom = None

    def _new(self, kind, node=None, info=None):
        n = Node(len(self.nodes), kind, node, info)
        self.nodes.append(n)
        return n

    def edge(self, a, kind, b):
        if (kind, b) not in a.succ:
            a.succ.append((kind, b))
            b.pred.append((kind, a))

    # ------------------------------------------------------------ dominators
    def _dominators(self, start, succ_of):
        order = []
        seen = set()

        def dfs(n):
            stack = [(n, iter(succ_of(n)))]
            seen.add(n.id)
            while stack:
                node, it = stack[-1]
                for m in it:
                    if m.id not in seen:
                        seen.add(m.id)
                        stack.append((m, iter(succ_of(m))))
                        break
                else:
                    order.append(node)
                    stack.pop()
        dfs(start)
        order.reverse()
        index = {n.id: i for i, n in enumerate(order)}
        preds = {}
        for n in order:
            for m in succ_of(n):
                if m.id in index:
                    preds.setdefault(m.id, []).append(n)
        idom = {start.id: start}
        changed = True
        while changed:
            changed = False
            for n in order[1:]:
                new = None
                for p in preds.get(n.id, []):
                    if p.id in idom:
                        if new is None:
                            new = p
                        else:
                            a, b = p, new
                            while a.id != b.id:
                                while index[a.id] > index[b.id]:
                                    a = idom[a.id]
                                while index[b.id] > index[a.id]:
                                    b = idom[b.id]
                            new = a
                if new is not None and idom.get(n.id) is not new:
                    idom[n.id] = new
                    changed = True
        return idom

    def dominates(self, a, b):
        """a dominates b (every path entry->b passes a); reflexive."""
        if self._idom is None:
            self._idom = self._dominators(self.entry, lambda n: [m for _, m in n.succ])
        if b.id not in self._idom:
            return False   # unreachable
        cur = b
        while True:
            if cur.id == a.id:
                return True
            nxt = self._idom[cur.id]
            if nxt.id == cur.id:
                return False
            cur = nxt

    def reachable(self, a):
        if self._idom is None:
            self.dominates(self.entry, self.entry)
        return a.id in self._idom

    def reaches(self, a, b, skip_kinds=()):
        """b reachable from a following edges whose kind is not in skip_kinds."""
        seen = set([a.id])
        stack = [a]
        while stack:
            n = stack.pop()
            for k, m in n.succ:
                if k in skip_kinds:
                    continue
                if m.id == b.id:
                    return True
                if m.id not in seen:
                    seen.add(m.id)
                    stack.append(m)
        return False

    def between(self, a, b, skip_kinds=()):
        """nodes on some path a -> ... -> b (exclusive), ignoring skip_kinds edges."""
        # a dominates b in all uses: the relevant segment runs from the *last* visit of a to b,
        # so paths must not pass through a (or b) again
        stop = (a.id, b.id)
        fwd = self._closure(a, lambda n: [m for k, m in n.succ if k not in skip_kinds and (n.id == a.id or n.id not in stop)])
        bwd = self._closure(b, lambda n: [m for k, m in n.pred if k not in skip_kinds and (n.id == b.id or n.id not in stop)])
        return [n for n in self.nodes if n.id in fwd and n.id in bwd and n.id not in stop]

    @staticmethod
    def _closure(start, nxt):
        seen = set()
        stack = [start]
        while stack:
            n = stack.pop()
            for m in nxt(n):
                if m.id not in seen:
                    seen.add(m.id)
                    stack.append(m)
        return seen

    # ------------------------------------------------- dominating conditions
    def dominating_conditions(self, node):
        """[(test_ast, polarity)] for every branch whose true- (or false-) side
        dominates `node`: conditions known to hold whenever `node` executes.
        For-loop 'iter' edges are reported as (for_ast, 'iter')."""
        out = []
        for br in self.nodes:
            if br.kind not in ("branch", "for"):
                continue
            if br.id == node.id or not self.dominates(br, node):
                continue
            for kind, tgt in br.succ:
                if kind not in ("true", "false", "iter", "exhausted"):
                    continue
                # the edge (br->tgt) dominates node iff tgt dominates node and
                # tgt has br as only predecessor on that side (structured code:
                # check that every pred of tgt other than br is dominated by tgt
                # i.e. back edges) - simple and sufficient for structured CFGs.
                if not self.dominates(tgt, node):
                    continue
                ok = True
                for _, p in tgt.pred:
                    if p.id != br.id and not self.dominates(tgt, p):
                        ok = False
                        break
                # both sides may lead to the same join; guard against that
                other = [t for k2, t in br.succ if k2 in ("true", "false", "iter", "exhausted") and k2 != kind]
                if any(t.id == tgt.id for t in other):
                    ok = False
                if ok:
                    test = br.ast.test if br.kind == "branch" else br.ast
                    out.append((test, kind, br))
        return out

    # ------------------------------------------------------ path enumeration
    def paths(self, loop_bound=1, limit=20000, stop_at=None):
        """All entry->(exit|raise_exit) paths as lists of (node, edge_kind_taken).
        Each node may be entered at most loop_bound+1 times per path."""
        res = []
        stack = [(self.entry, [], {})]
        while stack:
            node, path, counts = stack.pop()
            if node.kind in ("exit", "raise_exit") or (stop_at is not None and node.id == stop_at.id):
                res.append(path + [(node, None)])
                if len(res) > limit:
                    raise PathLimit("more than %d paths in %s" % (limit, self.func))
                continue
            c = counts.get(node.id, 0)
            if c > loop_bound:
                continue
            counts2 = dict(counts)
            counts2[node.id] = c + 1
            for kind, tgt in reversed(node.succ):
                stack.append((tgt, path + [(node, kind)], counts2))
        return res


class PathLimit(Exception):
    pass


# ---------------------------------------------------------------- builder
class _Ctx(object):
    """Targets for abrupt completion inside the current statement list."""
    def __init__(self, exc, ret, brk=None, cont=None):
        self.exc = exc      # node receiving raised exceptions
        self.ret = ret      # node receiving returns
        self.brk = brk
        self.cont = cont

    def with_(self, **kw):
        c = _Ctx(self.exc, self.ret, self.brk, self.cont)
        for k, v in kw.items():
            setattr(c, k, v)
        return c


def _has_eval(expr_roots):
    """does evaluating these expressions possibly raise (contains a call, subscript,
    attribute access, binary operation, comparison, iteration ...)?  Plain names and
    constants cannot."""
    for r in expr_roots:
        for n in ast.walk(r):
            if isinstance(n, (ast.Call, ast.Subscript, ast.Attribute, ast.BinOp, ast.Compare,
                              ast.UnaryOp, ast.ListComp, ast.SetComp, ast.DictComp,
                              ast.GeneratorExp, ast.Starred, ast.JoinedStr, ast.Delete,
                              ast.Yield, ast.YieldFrom, ast.Await)):
                return True
            if isinstance(n, (ast.Import, ast.ImportFrom)):
                return True
            if isinstance(n, ast.Assign) and any(isinstance(t, (ast.Tuple, ast.List)) for t in n.targets):
                return True   # unpacking
    return False


def build_cfg(func_or_node, func=None):
    """Build the CFG of a FuncInfo (or of a raw FunctionDef / Module node)."""
    node = getattr(func_or_node, "node", func_or_node)
    g = CFG(func if func is not None else (func_or_node if hasattr(func_or_node, "node") else None))
    ctx = _Ctx(exc=g.raise_exit, ret=g.exit)
    body = node.body
    last = _build_block(g, body, [(g.entry, "seq")], ctx)
    for n, k in last:
        g.edge(n, k, g.exit)
    return g


def _link(g, frontier, node):
    for n, k in frontier:
        g.edge(n, k, node)


def _build_block(g, stmts, frontier, ctx):
    """frontier: list of (node, edge_kind) dangling edges; returns new frontier."""
    for st in stmts:
        if not frontier:
            break   # unreachable code after return/raise/continue/break
        frontier = _build_stmt(g, st, frontier, ctx)
    return frontier


def _build_stmt(g, st, frontier, ctx):
    if isinstance(st, (ast.FunctionDef, ast.AsyncFunctionDef, ast.ClassDef)):
        n = g._new("stmt", st, {"nested_def": True})
        _link(g, frontier, n)
        return [(n, "seq")]
    if isinstance(st, ast.If):
        br = g._new("branch", st)
        _link(g, frontier, br)
        if _has_eval([st.test]):
            g.edge(br, "exc", ctx.exc)
        t = _build_block(g, st.body, [(br, "true")], ctx)
        f = _build_block(g, st.orelse, [(br, "false")], ctx) if st.orelse else [(br, "false")]
        return t + f
    if isinstance(st, ast.While):
        br = g._new("branch", st, {"loop": True})
        _link(g, frontier, br)
        if _has_eval([st.test]):
            g.edge(br, "exc", ctx.exc)
        after = g._new("join", st)
        body_ctx = ctx.with_(brk=after, cont=br)
        b = _build_block(g, st.body, [(br, "true")], body_ctx)
        for n, k in b:
            g.edge(n, "back" if k == "seq" else k, br)
        const_true = isinstance(st.test, ast.Constant) and bool(st.test.value)
        f = [] if const_true else [(br, "false")]
        if st.orelse:
            f = _build_block(g, st.orelse, f, ctx)
        _link(g, f, after)
        return [(after, "seq")] if after.pred else []
    if isinstance(st, (ast.For, ast.AsyncFor)):
        hd = g._new("for", st)
        _link(g, frontier, hd)
        g.edge(hd, "exc", ctx.exc)
        after = g._new("join", st)
        body_ctx = ctx.with_(brk=after, cont=hd)
        b = _build_block(g, st.body, [(hd, "iter")], body_ctx)
        for n, k in b:
            g.edge(n, "back" if k == "seq" else k, hd)
        f = [(hd, "exhausted")]
        if st.orelse:
            f = _build_block(g, st.orelse, f, ctx)
        _link(g, f, after)
        return [(after, "seq")]
    if isinstance(st, ast.Try):
        return _build_try(g, st, frontier, ctx)
    if isinstance(st, (ast.With, ast.AsyncWith)):
        cur = frontier
        exits = []
        inner_ctx = ctx
        # one enter/exit pair per item, nested
        for item in st.items:
            w = g._new("with", st, {"item": item})
            _link(g, cur, w)
            g.edge(w, "exc", inner_ctx.exc)
            wx_exc = g._new("withexit", st, {"item": item, "exceptional": True})
            g.edge(wx_exc, "exc", inner_ctx.exc)   # __exit__ runs, exception propagates
            wx_ret = g._new("withexit", st, {"item": item, "via": "return"})
            g.edge(wx_ret, "return", inner_ctx.ret)
            exits.append((w, wx_exc, wx_ret, inner_ctx))
            new_ctx = inner_ctx.with_(exc=wx_exc, ret=wx_ret)
            if inner_ctx.brk is not None:
                wx_b = g._new("withexit", st, {"item": item, "via": "break"})
                g.edge(wx_b, "break", inner_ctx.brk)
                wx_c = g._new("withexit", st, {"item": item, "via": "continue"})
                g.edge(wx_c, "continue", inner_ctx.cont)
                new_ctx.brk = wx_b
                new_ctx.cont = wx_c
            inner_ctx = new_ctx
            cur = [(w, "seq")]
        b = _build_block(g, st.body, cur, inner_ctx)
        for (w, wx_exc, wx_ret, _c) in reversed(exits):
            wx = g._new("withexit", st, {"item": w.info["item"], "exceptional": False})
            _link(g, b, wx)
            b = [(wx, "seq")] if wx.pred else []
        return b
    if isinstance(st, ast.Return):
        n = g._new("return", st)
        _link(g, frontier, n)
        if st.value is not None and _has_eval([st.value]):
            g.edge(n, "exc", ctx.exc)
        g.edge(n, "return", ctx.ret)
        return []
    if hasattr(ast, "Match") and isinstance(st, ast.Match):
        # patterns the normaliser could not turn into an if chain: every case body is an alternative, tests are opaque
        n = g._new("join", st, {"match": True})
        _link(g, frontier, n)
        g.edge(n, "exc", ctx.exc)
        outs = []
        for case in st.cases:
            outs += _build_block(g, case.body, [(n, "case")], ctx)
        irrefutable = any(isinstance(c.pattern, ast.MatchAs) and c.pattern.pattern is None and c.guard is None for c in st.cases)
        if not irrefutable:
            outs.append((n, "nomatch"))
        return outs
    if isinstance(st, ast.Raise):
        n = g._new("raise", st)
        _link(g, frontier, n)
        g.edge(n, "exc", ctx.exc)
        return []
    if isinstance(st, ast.Break):
        n = g._new("stmt", st)
        _link(g, frontier, n)
        g.edge(n, "break", ctx.brk)
        return []
    if isinstance(st, ast.Continue):
        n = g._new("stmt", st)
        _link(g, frontier, n)
        g.edge(n, "continue", ctx.cont)
        return []
    if isinstance(st, ast.Assert):
        br = g._new("branch", st, {"assert": True})
        _link(g, frontier, br)
        g.edge(br, "exc", ctx.exc)   # AssertionError or the test itself raising
        return [(br, "true")]
    # simple statements
    n = g._new("stmt", st)
    _link(g, frontier, n)
    if _has_eval([st]):
        g.edge(n, "exc", ctx.exc)
    return [(n, "seq")]


def handler_classes(h):
    """names caught by an ExceptHandler ('*' for bare)."""
    if h.type is None:
        return ["*"]
    if isinstance(h.type, ast.Tuple):
        return [unparse(e) for e in h.type.elts]
    return [unparse(h.type)]


def _build_try(g, st, frontier, ctx):
    has_final = bool(st.finalbody)

    def final_copy(next_targets_kind):
        """build a fresh copy of finalbody; returns (entry_frontier_setter, out_frontier)"""
        j = g._new("join", st, {"finally": next_targets_kind})
        out = _build_block(g, st.finalbody, [(j, "seq")], ctx)
        return j, out

    outer_exc = ctx.exc
    outer_ret = ctx.ret
    outer_brk, outer_cont = ctx.brk, ctx.cont
    if has_final:
        j_exc, out_exc = final_copy("exc")
        for n, k in out_exc:
            g.edge(n, "exc", ctx.exc)
        outer_exc = j_exc
        j_ret, out_ret = final_copy("return")
        for n, k in out_ret:
            g.edge(n, "return", ctx.ret)
        outer_ret = j_ret
        if ctx.brk is not None:
            j_b, out_b = final_copy("break")
            for n, k in out_b:
                g.edge(n, "break", ctx.brk)
            outer_brk = j_b
            j_c, out_c = final_copy("continue")
            for n, k in out_c:
                g.edge(n, "continue", ctx.cont)
            outer_cont = j_c
    after_ctx = _Ctx(outer_exc, outer_ret, outer_brk, outer_cont)

    frontier_out = []
    if st.handlers:
        disp = g._new("dispatch", st)
        body_ctx = after_ctx.with_(exc=disp)
        b = _build_block(g, st.body, frontier, body_ctx)
        catch_all = False
        for h in st.handlers:
            hn = g._new("handler", h, {"classes": handler_classes(h), "name": h.name})
            g.edge(disp, "except", hn)
            hb = _build_block(g, h.body, [(hn, "seq")], after_ctx)
            frontier_out += hb
            if any(c in CATCH_ALL or c == "*" for c in handler_classes(h)):
                catch_all = True
        disp.info["catch_all"] = catch_all
        # an exception not matched by any handler propagates (for `except Exception`
        # only non-Exception BaseExceptions, which no rule here considers)
        if not catch_all:
            g.edge(disp, "exc", outer_exc)
    else:
        b = _build_block(g, st.body, frontier, after_ctx)
    if st.orelse:
        b = _build_block(g, st.orelse, b, after_ctx)
    frontier_out += b
    if has_final:
        j, out = final_copy("normal")
        _link(g, frontier_out, j)
        return out
    return frontier_out


# ------------------------------------------------------------ conveniences
def stmt_nodes(g):
    return [n for n in g.nodes if n.kind in ("stmt", "branch", "for", "return", "raise", "with")]


def enclosing_handlers(g, node):
    """dispatch nodes that may receive an exception raised at `node`, innermost
    first, following exc edges (through withexit / finally copies)."""
    out = []
    seen = set()
    cur = [t for k, t in node.succ if k == "exc"]
    while cur:
        nxt = []
        for t in cur:
            if t.id in seen:
                continue
            seen.add(t.id)
            if t.kind == "dispatch":
                out.append(t)
                nxt += [x for k, x in t.succ if k == "exc"]
            elif t.kind in ("withexit", "join"):
                # follow through the block to its exc continuation
                stack = [t]
                while stack:
                    y = stack.pop()
                    for k, x in y.succ:
                        if k == "exc":
                            nxt.append(x)
                        elif x.id not in seen and k != "return":
                            seen.add(x.id)
                            stack.append(x)
            # raise_exit: stop
        cur = nxt
    return out
