"""Reviewed tables (data, one reason per entry).  Printed into the evidence."""

# ---------------------------------------------------------------------------
# odML 1.1 element vocabulary (external format specification: the odML 1.1
# schema, https://github.com/G-Node/odml-terminologies / python-odml doc
# "data model"), kept as data.  It is the oracle for "uses only the odML 1.1
# element vocabulary" (C01/C02/C15).
ODML_1_1_VOCABULARY = {
    "Document": {"id", "version", "author", "date", "section", "repository"},
    "Section": {"id", "type", "name", "definition", "reference", "link", "repository",
                "section", "include", "property", "sec_cardinality", "prop_cardinality"},
    "Property": {"id", "name", "value", "unit", "definition", "dependency", "dependencyvalue",
                 "uncertainty", "reference", "type", "value_origin", "val_cardinality"},
}
ODML_1_1_ROOT_TAGS = {"Document": "odML", "Section": "section", "Property": "property"}
ODML_1_1_REQUIRED = {"Document": set(), "Section": {"name", "type"}, "Property": {"name"}}
CHILD_COLLECTION_KEYS = {"section", "property"}

# ---------------------------------------------------------------------------
# Documented validation rules (odml/validation.py docstrings + doc/): which object
# kinds each rule must be registered for, and the rank of the issue it reports.
VALIDATION_RULES = {
    # IssueID member                    kinds it must be registered for        rank
    "object_required_attributes":     ({"odML", "section", "property"},       "error"),
    "section_type_must_be_defined":   ({"section"},                           "warning"),
    "section_unique_ids":             ({"odML"},                              "error"),
    "property_unique_ids":            ({"odML"},                              "error"),
    "section_unique_name_type":       ({"odML", "section"},                   "error"),
    "property_unique_name":           ({"section"},                           "error"),
    "object_name_readable":           ({"section", "property"},               "warning"),
    "property_dependency_check":      ({"property"},                          "warning"),
    "property_values_check":          ({"property"},                          "warning"),
    "property_values_string_check":   ({"property"},                          "warning"),
    "section_properties_cardinality": ({"section"},                           "warning"),
    "section_sections_cardinality":   ({"section"},                           "warning"),
    "property_values_cardinality":    ({"property"},                          "warning"),
}
# not part of the default validation (registered on demand only)
VALIDATION_OPTIONAL = {"section_repository_present", "property_terminology_check",
                       "custom_validation", "unspecified"}

# ---------------------------------------------------------------------------
# dtypes whose values are plain text and fall back to the string converter.
STRING_KIND_DTYPES = {"string", "text", "url", "person"}
