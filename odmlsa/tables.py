"""Reviewed tables (data, one reason per entry).  Printed into the evidence."""

# ---------------------------------------------------------------------------
# odML 1.1 element vocabulary (external format specification: the odML 1.1
# schema, https://github.com/G-Node/odml-terminologies / python-odml doc
# "data model"), kept as data.  It is the oracle for "uses only the odML 1.1
# element vocabulary" (C01/C02/C15).
ODML_1_1_VOCABULARY = {
    "Document": {"id", "version", "author", "date", "section", "repository"},
    "Section": {"id", "type", "name", "definition", "reference", "link", "repository",
                "section", "include", "property", "sec_cardinality", "prop_cardinality"},
    "Property": {"id", "name", "value", "unit", "definition", "dependency", "dependencyvalue",
                 "uncertainty", "reference", "type", "value_origin", "val_cardinality"},
}
ODML_1_1_ROOT_TAGS = {"Document": "odML", "Section": "section", "Property": "property"}
ODML_1_1_REQUIRED = {"Document": set(), "Section": {"name", "type"}, "Property": {"name"}}
CHILD_COLLECTION_KEYS = {"section", "property"}

# ---------------------------------------------------------------------------
# Documented validation rules (odml/validation.py docstrings + doc/): which object
# kinds each rule must be registered for, and the rank of the issue it reports.
VALIDATION_RULES = {
    # IssueID member                    kinds it must be registered for        rank
    "object_required_attributes":     ({"odML", "section", "property"},       "error"),
    "section_type_must_be_defined":   ({"section"},                           "warning"),
    "section_unique_ids":             ({"odML"},                              "error"),
    "property_unique_ids":            ({"odML"},                              "error"),
    "section_unique_name_type":       ({"odML", "section"},                   "error"),
    "property_unique_name":           ({"section"},                           "error"),
    "object_name_readable":           ({"section", "property"},               "warning"),
    "property_dependency_check":      ({"property"},                          "warning"),
    "property_values_check":          ({"property"},                          "warning"),
    "property_values_string_check":   ({"property"},                          "warning"),
    "section_properties_cardinality": ({"section"},                           "warning"),
    "section_sections_cardinality":   ({"section"},                           "warning"),
    "property_values_cardinality":    ({"property"},                          "warning"),
}
# not part of the default validation (registered on demand only)
VALIDATION_OPTIONAL = {"section_repository_present", "property_terminology_check",
                       "custom_validation", "unspecified"}

# ---------------------------------------------------------------------------
# dtypes whose values are plain text and fall back to the string converter.
STRING_KIND_DTYPES = {"string", "text", "url", "person"}

# ---------------------------------------------------------------------------
# (b) parameter kinds the code does not establish by an isinstance test that the
# analysis can see (one reason per entry).  key: (function short name, parameter)
PARAM_KINDS = {
    # called through getattr(self, 'parse_' + tag)(node, self.tags[tag]); tags maps names to format objects
    ("tools.xmlparser.XMLReader.parse_tag", "fmt"): ("fmt:Document", "fmt:Section", "fmt:Property"),
    ("tools.xmlparser.XMLReader.parse_odML", "fmt"): ("fmt:Document",),
    ("tools.xmlparser.XMLReader.parse_section", "fmt"): ("fmt:Section",),
    ("tools.xmlparser.XMLReader.parse_property", "fmt"): ("fmt:Property",),
    ("tools.xmlparser.XMLReader.check_mandatory_arguments", "arg_class"): ("fmt:Document", "fmt:Section", "fmt:Property"),
    ("tools.xmlparser.XMLReader.is_valid_argument", "arg_class"): ("fmt:Document", "fmt:Section", "fmt:Property"),
    ("tools.dict_parser.DictReader.is_valid_attribute", "fmt"): ("fmt:Document", "fmt:Section", "fmt:Property"),
    # validated by self._validate_parent (a helper returning an isinstance test)
    ("section.BaseSection.parent.setter", "new_parent"): ("BaseSection", "BaseDocument", "None"),
    ("property.BaseProperty.parent.setter", "new_parent"): ("BaseSection", "None"),
    # public API documented to take a Section / Property
    ("section.BaseSection.merge", "section"): ("BaseSection", "None"),
    ("section.BaseSection.merge_check", "source_section"): ("BaseSection",),
    ("section.BaseSection.unmerge", "section"): ("BaseSection",),
    ("property.BaseProperty.merge", "other"): ("BaseProperty",),
    ("property.BaseProperty.merge_check", "source"): ("BaseProperty",),
    ("base.Sectionable.get_relative_path", "section"): ("BaseSection",),
    ("base.Sectionable.remove", "section"): ("BaseSection",),
    ("base.Sectionable.contains", "obj"): ("BaseSection",),
    # the XML writer walks odML objects
    ("tools.xmlparser.XMLWriter.save_element", "curr_el"): ("BaseDocument", "BaseSection", "BaseProperty"),
    ("tools.xmlparser.XMLWriter.__init__", "odml_document"): ("BaseDocument",),
    ("tools.dict_parser.DictWriter.to_dict", "odml_document"): ("BaseDocument",),
    ("tools.odmlparser.ODMLWriter.write_file", "odml_document"): ("BaseDocument",),
    ("tools.odmlparser.ODMLWriter.to_string", "odml_document"): ("BaseDocument",),
    ("validation.Validation.__init__", "obj"): ("BaseDocument", "BaseSection", "BaseProperty"),
    ("validation.Validation.validate", "obj"): ("BaseDocument", "BaseSection", "BaseProperty"),
    ("validation.section_unique_ids", "parent"): ("BaseDocument", "BaseSection"),
    ("validation.property_unique_ids", "section"): ("BaseSection",),
    ("validation.object_unique_names", "obj"): ("BaseDocument", "BaseSection"),
    ("validation._cardinality_validation", "obj"): ("BaseSection", "BaseProperty"),
    ("tools.rdf_converter.RDFWriter.save_document", "doc"): ("BaseDocument",),
    ("tools.rdf_converter.RDFWriter.save_section", "sec"): ("BaseSection",),
    ("tools.rdf_converter.RDFWriter.save_property", "prop"): ("BaseProperty",),
}


# (b') return kinds the solver cannot derive (values kept in dict subclasses)
RETURN_KINDS = {
    # Terminologies/TemplateHandler are dicts url -> parsed document (or None when parsing failed): _load stores exactly that
    "terminology.Terminologies.load": ("BaseDocument", "None"),
    "terminology.Terminologies._load": ("BaseDocument", "None"),
    "templates.TemplateHandler.load": ("BaseDocument", "None"),
    "templates.TemplateHandler._load": ("BaseDocument", "None"),
}
RETURN_KINDS.update({
    # path lookups return an element of a sections list or raise ValueError (read: base.py _get_section_by_path / _match_iterable)
    "base.Sectionable.get_section_by_path": ("BaseSection",),
    "base.Sectionable._get_section_by_path": ("BaseSection",),
    "base.Sectionable.get_property_by_path": ("BaseProperty",),
})


# attributes whose *set* values include falsy ones (reviewed): a truthiness test on them confuses "set to 0 / False" with "unset"
FALSY_SET_ATTRIBUTES = {
    "uncertainty": "an uncertainty of 0 is a set value",
    "dependency_value": "a dependency value of 0 / False is a set value (it is compared with the values of the dependency)",
}
