"""Dead-raise contracts for the ATOM rule (DESIGN section 3.8 (c)).

Each entry names ONE raise origin on ONE call chain whose infeasibility rests on an argument the
analysis does not derive by itself, the reason, and the structural obligations that are checked
elsewhere and make the argument valid.  They are printed into the evidence on every run.
"""
import ast

from .raises import norm


def _chain_calls(site):
    return [c.split(":", 1)[1] for c in site.chain]


def _chain_funcs(site):
    return [c.split(":", 1)[0] for c in site.chain]


def _recv(site):
    """receiver expression (AST, in the current function) of the first chain element."""
    a = site.call
    if a is None:
        return None
    if site.evkind == "call" and isinstance(a.func, ast.Attribute):
        return a.func.value
    if site.evkind in ("store_attr", "load_prop"):
        return a.value
    return None


def _is_self(f, e):
    return isinstance(e, ast.Name) and bool(f.params) and f.has_self and e.id == f.params[0]


def _callee(site):
    return site.tgt.name if site.tgt is not None else ""


def _fresh(atom, f, node, e):
    """every object `e` may denote was created in this activation (clone / constructor result)."""
    if e is None:
        return False
    try:
        os_ = atom.s.origin(e, f, node)
    except Exception:
        return False
    return bool(os_) and all(r == "FRESH" for r, _ in os_)


def inv_i_remove(atom, f, node, site):
    """X._parent.remove(X) under `X._parent is not None`: X is listed in its parent (invariant I of C03)."""
    if site.origin[0] != "base.SmartList.index" or not site.chain or site.evkind != "call" or _callee(site) != "remove":
        return False
    c = site.call
    recv = _recv(site)
    if recv is None or not (isinstance(recv, ast.Attribute) and recv.attr in ("_parent", "parent")):
        return False
    obj = norm(recv.value)
    if not (c.args and norm(c.args[0]) == obj):
        return False
    facts = atom.R.facts_at(f, node)
    return ("%s._parent is None" % obj, False) in facts or ("%s._parent" % obj, True) in facts


def validated_conversion(atom, f, node, site):
    """dtypes.get(v, self.dtype) for v in X after self._validate_values(X) returned True on this path:
    _validate_values performed exactly these calls inside try/except Exception."""
    if not site.chain or site.evkind != "call" or site.tgt is None or site.tgt.short != "dtypes.get":
        return False
    if not (site.origin[0].startswith("dtypes.")):
        return False
    me = f.params[0] if f.params else "self"
    facts = atom.R.facts_at(f, node)
    pre = "%s._validate_values(" % me
    validated = [t[len(pre):-1] for t, p in facts if p is True and t.startswith(pre)]
    if not validated:
        return False
    # the converted values are the validated ones: comprehension over X, or X[0]
    c = site.call
    if not c.args:
        return False
    a = c.args[0]
    if isinstance(a, ast.Subscript) and norm(a.value) in validated:
        return _validate_values_shape(atom)
    if isinstance(a, ast.Name):
        for r in node.expr_roots():
            for comp in ast.walk(r):
                if isinstance(comp, ast.comprehension) and isinstance(comp.target, ast.Name) and comp.target.id == a.id \
                        and norm(comp.iter) in validated:
                    return _validate_values_shape(atom)
    return False


def _validate_values_shape(atom):
    """obligation: BaseProperty._validate_values converts every element of its argument with dtypes.get(<element>, self.dtype) inside a try
    whose handler catches Exception (or everything) and answers False - in a loop of its own, or through a private per-element helper that
    it applies to every element (`all(self._ok(v) for v in values)`, or a loop that returns False when the helper does)."""
    f = atom.an.p.func("property.BaseProperty._validate_values")
    if len(f.params) < 2:
        return False
    me, arg = f.params[0], f.params[1]
    from .symtext import Expander, _is_private_helper_call

    def guarded_conversion(fn, body_root, elem, self_name):
        x = Expander(fn)
        for tr in ast.walk(body_root):
            if not isinstance(tr, ast.Try):
                continue
            conv = [c for st in tr.body for c in ast.walk(st) if isinstance(c, ast.Call) and ast.unparse(c.func) == "dtypes.get"
                    and len(c.args) == 2 and isinstance(c.args[0], ast.Name) and c.args[0].id == elem
                    and x.text(c.args[1]) in ("%s.dtype" % self_name, "%s._dtype" % self_name)]
            catch_all = [h for h in tr.handlers if h.type is None or ast.unparse(h.type) in ("Exception", "BaseException")]
            ret_false = [h for h in catch_all if any(isinstance(y, ast.Return) and isinstance(y.value, ast.Constant) and y.value.value is False
                                                     for y in ast.walk(h))]
            if conv and ret_false:
                return True
        return False
    for loop in ast.walk(f.node):
        if isinstance(loop, ast.For) and isinstance(loop.iter, ast.Name) and loop.iter.id == arg and isinstance(loop.target, ast.Name):
            if guarded_conversion(f, loop, loop.target.id, me):
                return True
    # per element helper
    for n in ast.walk(f.node):
        gens = []
        if isinstance(n, ast.Call) and isinstance(n.func, ast.Name) and n.func.id == "all" and len(n.args) == 1 \
                and isinstance(n.args[0], (ast.GeneratorExp, ast.ListComp)) and len(n.args[0].generators) == 1 and not n.args[0].generators[0].ifs:
            gen = n.args[0].generators[0]
            if isinstance(gen.iter, ast.Name) and gen.iter.id == arg and isinstance(gen.target, ast.Name):
                gens.append((gen.target.id, n.args[0].elt))
        if isinstance(n, ast.For) and isinstance(n.iter, ast.Name) and n.iter.id == arg and isinstance(n.target, ast.Name):
            for t in ast.walk(n):
                if isinstance(t, ast.If) and isinstance(t.test, ast.UnaryOp) and isinstance(t.test.op, ast.Not) and isinstance(t.test.operand, ast.Call) \
                        and any(isinstance(y, ast.Return) and isinstance(y.value, ast.Constant) and y.value.value is False for y in t.body):
                    gens.append((n.target.id, t.test.operand))
        for elem, call in gens:
            if not (isinstance(call, ast.Call) and len(call.args) == 1 and isinstance(call.args[0], ast.Name) and call.args[0].id == elem):
                continue
            try:
                h = _is_private_helper_call(f, call)
            except Exception:
                h = None
            if h is None:
                continue
            off = 1 if h.has_self else 0
            if len(h.params) != off + 1:
                continue
            rets = [y for y in ast.walk(h.node) if isinstance(y, ast.Return)]
            truthy_tail = any(isinstance(y.value, ast.Constant) and y.value.value is True for y in rets)
            if truthy_tail and guarded_conversion(h, h.node, h.params[off], h.params[0] if h.has_self else me):
                return True
    return False


def merge_extend_after_check(atom, f, node, site):
    """Property.merge -> self.extend(...): extend's refusals (unconvertible values, strict dtype mismatch) were
    checked by merge_check on the same values (obligations DOM-6, VAL-1, SIB-2 in C13)."""
    return f.short == "property.BaseProperty.merge" and bool(site.chain) and site.evkind == "call" and _callee(site) == "extend" \
        and _is_self(f, _recv(site))


def merge_recursion_after_check(atom, f, node, site):
    """Section.merge -> <own child>.merge(obj, strict): the nested merge_check visits pairs the outer merge_check
    already visited with the same strict flag (obligation SIB-2, FWD-1 in C13)."""
    if f.short != "section.BaseSection.merge" or not site.chain or site.evkind != "call" or _callee(site) != "merge":
        return False
    if _is_self(f, _recv(site)):
        return False
    calls = _chain_calls(site)
    if "self.merge_check" in calls[1:3] or site.origin[0].endswith("merge_check"):
        return True
    # the kind test of the nested merge: contains() returns an object of the same kind as its argument
    return site.origin[0] == "property.BaseProperty.merge" and site.exc == "TypeError"


def merge_append_property_clone(atom, f, node, site):
    """Section.merge -> self.append(clone of a Property): KeyError is dead because contains() found no Property
    of that name and Property matching is by name only (obligation SEL-1 for Properties in C13)."""
    if f.short != "section.BaseSection.merge" or site.origin[0] != "base.SmartList.append" or site.exc != "KeyError":
        return False
    calls = _chain_calls(site)
    return len(calls) >= 2 and site.evkind == "call" and _callee(site) == "append" and _is_self(f, _recv(site)) \
        and calls[1] == "self._props.append"


def unmerge_remove_found_child(atom, f, node, site):
    """Section.unmerge -> self.remove(obj): obj was obtained from self.contains(...) in the same activation and
    nothing was removed in between, so SmartList.index finds it."""
    if f.short != "section.BaseSection.unmerge" or site.origin[0] not in ("base.SmartList.index", "section.BaseSection.remove"):
        return False
    return bool(site.chain) and site.evkind == "call" and _callee(site) == "remove" and _is_self(f, _recv(site))


def clone_append_unique_names(atom, f, node, site):
    """clone(): appending clones of the children of a well formed Section into the fresh, empty copy cannot clash,
    because sibling names are unique (C04)."""
    if f.short not in ("base.Sectionable.clone", "section.BaseSection.clone"):
        return False
    return site.origin[0] == "base.SmartList.append" and site.exc == "KeyError" and bool(site.chain) \
        and site.evkind == "call" and _callee(site) == "append" and _fresh(atom, f, node, _recv(site))


def clone_values_conform(atom, f, node, site):
    """Property.clone -> <copy>.values = self._values: the stored values already conform to the Property's dtype (C05),
    so the values setter of the copy (same dtype) cannot refuse them."""
    if not (f.short == "property.BaseProperty.clone" and bool(site.chain) and site.evkind == "store_attr" and site.call.attr == "values"):
        return False
    return _fresh(atom, f, node, _recv(site)) and (site.origin[0] == "property.BaseProperty.values.setter" or site.origin[0].endswith("._convert_value_input"))


def export_leaf_appends_clones(atom, f, node, site):
    """Section.export_leaf -> <parent clone>.append(child): child is `self` only in the first iteration, where the guard
    `curr != self` is false; afterwards child is the fresh clone built in the previous iteration. The append may sit in a
    private helper of the class that export_leaf calls with the clone as argument."""
    if f.short != "section.BaseSection.export_leaf" or not site.chain or site.evkind != "call":
        return False
    if _callee(site) == "append":
        return not _is_self(f, _recv(site)) and isinstance(_recv(site), ast.Name)
    callee = _callee(site)
    if callee.startswith("_") and not callee.startswith("__") and _is_self(f, _recv(site)) and len(site.chain) >= 2:
        inner = _chain_calls(site)[1]
        return inner.endswith(".append") and not inner.startswith("self.")
    return False

_KIND_LISTS = {"BaseSection": ("_sections", "sections"), "BaseProperty": ("_props", "properties")}


def _names_class(atom, f, e, kind):
    """the expression denotes exactly the class `kind` (by name, or through a local / helper that returns the class)"""
    if norm(e).split(".")[-1] == kind:
        return True
    try:
        ks = atom.k.ek(e, f, atom.k.envs.get(f.qualname, {}))
    except Exception:
        return False
    return bool(ks) and set(ks) == set(["class:" + kind])


def _claim_helper_shape(atom, h):
    """(index of the name parameter, of the list it is tested against, of the collection it is recorded in) when the private
    helper h is `if name in taken or name in claimed: raise ...; claimed.append(name)`: at the statement that records the name both
    membership tests are known to be false, and every normal exit passed it.  None otherwise."""
    from .logic import known, reach_avoiding
    cache = atom.__dict__.setdefault("_claim_shapes", {})
    if h.qualname in cache:
        return cache[h.qualname]
    res = None
    try:
        g = atom.s.cfg(h)
        adds = []
        for n in g.nodes:
            if n.kind == "stmt" and isinstance(n.ast, ast.Expr) and isinstance(n.ast.value, ast.Call):
                c = n.ast.value
                if isinstance(c.func, ast.Attribute) and c.func.attr in ("append", "add") and isinstance(c.func.value, ast.Name) \
                        and c.func.value.id in h.params and len(c.args) == 1 and isinstance(c.args[0], ast.Name) and c.args[0].id in h.params:
                    adds.append((n, c.func.value.id, c.args[0].id))
        if len(adds) == 1:
            n, claimed, name = adds[0]
            others = [p0 for p0 in h.params if p0 not in (claimed, name)]
            for taken in others:
                def classify(lf, taken=taken):
                    if isinstance(lf, ast.Compare) and len(lf.ops) == 1 and isinstance(lf.ops[0], ast.In) and isinstance(lf.left, ast.Name) \
                            and lf.left.id == name and isinstance(lf.comparators[0], ast.Name):
                        return {taken: "T", claimed: "S"}.get(lf.comparators[0].id)
                    return None
                if known(g, n, classify, lambda a: not a["T"], ["T"]) and known(g, n, classify, lambda a: not a["S"], ["S"]) \
                        and not reach_avoiding(g, g.entry, g.exit, lambda s0, k0, d0: d0.id == n.id, skip_kinds=("exc",)) \
                        and not any(name in __import__("odmlsa.dataflow", fromlist=["node_defs"]).node_defs(m) or
                                    claimed in __import__("odmlsa.dataflow", fromlist=["node_defs"]).node_defs(m) for m in g.nodes if m.kind != "entry"):
                    res = (h.params.index(name), h.params.index(taken), h.params.index(claimed))
                    break
    except Exception:
        res = None
    cache[h.qualname] = res
    return res


def _precheck_loop(atom, f, first, second_iter):
    """obligations of the PRECHECKED contract on the first loop of an extend method (see the contract text).
    Returns the set of kinds whose elements are known to carry names that are new to the child list of that
    kind and pairwise distinct, or an empty set."""
    from .logic import known
    if not (isinstance(first, ast.For) and not first.orelse and isinstance(first.target, ast.Name)
            and isinstance(first.iter, ast.Name) and first.iter.id == second_iter):
        return set()
    if any(isinstance(x, (ast.Break, ast.Continue, ast.Return)) for x in ast.walk(first)):
        return set()
    y = first.target.id
    g = atom.s.cfg(f)
    hd = next((n for n in g.nodes if n.kind == "for" and n.ast is first), None)
    if hd is None:
        return set()
    me = f.params[0]
    name_txt = "%s._name" % y      # getter-normalised text
    ax = atom.an.alias_expander(f) if hasattr(atom.an, "alias_expander") else None

    claimed_by_helper = {}      # node id -> child list expression the helper tests the name against
    from .symtext import Expander as _Ex
    _fx = _Ex(f, g)

    def xt(test, br):
        # a test kept in a boolean local first (`taken = a or b; if taken: raise`) is the test itself; only names bound to tests are expanded
        from .dataflow import reaching_defs as _rd, def_value as _dv

        class T(ast.NodeTransformer):
            def visit_Name(self, nm):
                if isinstance(nm.ctx, ast.Load):
                    ds = list(_rd(g, br, nm.id))
                    e2 = _dv(ds[0], nm.id) if len(ds) == 1 and ds[0].kind != "entry" else None      # one step only: the operands keep their names
                    if isinstance(e2, (ast.BoolOp, ast.Compare, ast.UnaryOp)) or (isinstance(e2, ast.Call) and isinstance(e2.func, ast.Name) and e2.func.id == "isinstance"):
                        return e2
                return nm
        import copy as _copy
        if isinstance(test, ast.Name) or (isinstance(test, ast.UnaryOp) and isinstance(test.operand, ast.Name)):
            return T().visit(_copy.deepcopy(test))
        return test

    def add_of(n):
        """(collection local) when node n is `S.append(y.name)` / `S.add(y.name)`, or a call of a claim helper (see
        _claim_helper_shape) that is handed y.name, a child list and the local collection S"""
        if n.kind != "stmt" or not isinstance(n.ast, ast.Expr) or not isinstance(n.ast.value, ast.Call):
            return None
        c = n.ast.value
        if isinstance(c.func, ast.Attribute) and c.func.attr in ("append", "add") and isinstance(c.func.value, ast.Name) \
                and len(c.args) == 1 and not c.keywords and norm(c.args[0]) == name_txt:
            return c.func.value.id
        from .symtext import _is_private_helper_call
        h = _is_private_helper_call(f, c)
        shape = _claim_helper_shape(atom, h) if h is not None and not c.keywords else None
        if shape is not None:
            i_name, i_taken, i_claimed = shape
            off = 1 if (h.has_self and isinstance(c.func, ast.Attribute)) else 0
            args = c.args
            if max(i_name, i_taken, i_claimed) - off < len(args) and min(i_name, i_taken, i_claimed) - off >= 0:
                a_name, a_taken, a_claimed = args[i_name - off], args[i_taken - off], args[i_claimed - off]
                if norm(a_name) == name_txt and isinstance(a_claimed, ast.Name):
                    claimed_by_helper[n.id] = a_taken
                    return a_claimed.id
        return None

    body = set()
    stack = [m for k, m in hd.succ if k == "iter"]
    while stack:
        n = stack.pop()
        if n.id in body or n.id == hd.id:
            continue
        body.add(n.id)
        stack.extend(m for k, m in n.succ if k != "exc")
    adds = [(n, add_of(n)) for n in g.nodes if n.id in body and add_of(n)]
    if not adds:
        return set()
    # every completed iteration passes one of the adds (on every propositionally feasible path)
    from .logic import reach_feasible

    def kind_label(lf):
        if isinstance(lf, ast.Call) and isinstance(lf.func, ast.Name) and lf.func.id == "isinstance" and len(lf.args) == 2 \
                and norm(lf.args[0]) == y:
            for kind in _KIND_LISTS:
                if _names_class(atom, f, lf.args[1], kind):
                    return "IS:" + kind
        return None
    if reach_feasible(g, [m for k, m in hd.succ if k == "iter"], hd, stop_ids=set(n.id for n, _ in adds), classify=kind_label, norm_fn=norm):
        return set()
    kinds = {}
    for n, coll in adds:
        # the collection: one empty literal definition before the loop, otherwise only read by `in` and filled by these adds
        defs = [st for st in ast.walk(f.node) if isinstance(st, (ast.Assign, ast.AugAssign, ast.AnnAssign, ast.For, ast.With,
                                                                  ast.NamedExpr, ast.comprehension, ast.ExceptHandler))
                and (getattr(st, "name", None) == coll or
                     any(isinstance(t, ast.Name) and t.id == coll and isinstance(t.ctx, ast.Store) for t in ast.walk(st)
                         if t is not st))]
        defs = [st for st in defs if not isinstance(st, (ast.For, ast.With)) or
                any(isinstance(t, ast.Name) and t.id == coll for tt in ([st.target] if isinstance(st, ast.For) else
                                                                         [i.optional_vars for i in st.items if i.optional_vars is not None])
                    for t in ast.walk(tt))]
        if len(defs) != 1 or not isinstance(defs[0], ast.Assign) or defs[0].lineno >= first.lineno:
            return set()
        v = defs[0].value
        if isinstance(v, ast.Tuple) and isinstance(defs[0].targets[0], ast.Tuple):
            idx = [i for i, t in enumerate(defs[0].targets[0].elts) if isinstance(t, ast.Name) and t.id == coll]
            v = v.elts[idx[0]] if idx and len(v.elts) == len(defs[0].targets[0].elts) else None
        empty = (isinstance(v, (ast.List, ast.Set)) and not v.elts) or \
                (isinstance(v, ast.Call) and isinstance(v.func, ast.Name) and v.func.id in ("list", "set") and not v.args)
        if not empty:
            return set()
        for u in ast.walk(f.node):
            if isinstance(u, ast.Attribute) and isinstance(u.value, ast.Name) and u.value.id == coll and u.attr not in ("append", "add"):
                return set()
        found = None
        for kind, lists in _KIND_LISTS.items():
            def classify(lf, br=None, kind=kind, lists=lists):
                if isinstance(lf, ast.Call) and isinstance(lf.func, ast.Name) and lf.func.id == "isinstance" and len(lf.args) == 2 \
                        and norm(lf.args[0]) == y and _names_class(atom, f, lf.args[1], kind):
                    return "K"
                if isinstance(lf, ast.Compare) and len(lf.ops) == 1 and isinstance(lf.ops[0], ast.In) and norm(lf.left) == name_txt:
                    r = lf.comparators[0]
                    if isinstance(r, ast.Name) and r.id == coll:
                        return "S"
                    if isinstance(r, ast.Name) and ax is not None:
                        r0 = r
                        for at in (br, hd):
                            if at is None:
                                continue
                            try:
                                r = ax.expand(r0, at)
                            except Exception:
                                r = r0
                            if not isinstance(r, ast.Name):
                                break
                    if isinstance(r, ast.Attribute) and isinstance(r.value, ast.Name) and r.value.id == me and r.attr in lists:
                        return "C"
                return None
            if n.id in claimed_by_helper:
                # the helper itself refuses a name found in the list it is handed and in the collection: that list must be
                # the child list of the kind known at the call
                r = claimed_by_helper[n.id]
                if isinstance(r, ast.Name) and ax is not None:
                    try:
                        r = ax.expand(r, n)
                    except Exception:
                        pass
                c_ok = isinstance(r, ast.Attribute) and isinstance(r.value, ast.Name) and r.value.id == me and r.attr in lists
                if c_ok and known(g, n, classify, lambda a: a["K"], ["K"], start=hd, with_node=True):
                    found = kind
            elif known(g, n, classify, lambda a: a["K"], ["K"], start=hd, expand_test=xt, with_node=True) \
                    and known(g, n, classify, lambda a: not a["C"], ["C"], start=hd, expand_test=xt, with_node=True) \
                    and known(g, n, classify, lambda a: not a["S"], ["S"], start=hd, expand_test=xt, with_node=True):
                found = kind
        if found is None or kinds.get(coll, found) != found or (found in kinds.values() and coll not in kinds):
            return set()
        kinds[coll] = found
    return set(kinds.values())


def _append_family(atom):
    """the three append methods and the private helpers they call (where their kind / name clash refusals are written)"""
    cache = atom.__dict__.setdefault("_append_family", None)
    if cache is None:
        from .dataflow import private_closure
        cache = set()
        for qn in ("base.SmartList.append", "base.Sectionable.append", "section.BaseSection.append"):
            try:
                fn = atom.an.p.func(qn)
            except Exception:
                continue
            for h in private_closure(fn):
                cache.add(h.short)
        atom.__dict__["_append_family"] = cache
    return cache


def extend_names_prechecked(atom, f, node, site):
    """X.extend(objs) -> self.append(obj) in a loop over the parameter: a first loop over the same parameter refuses every
    element that is not a Section/Property, whose name is used in the child list of its kind, or whose name occurred
    earlier in the argument (a local collection filled on every completed iteration). The refusals of append (kind,
    name clash) therefore cannot happen in the second loop."""
    if f.short not in ("base.Sectionable.extend", "section.BaseSection.extend") or not site.chain or site.evkind != "call":
        return False
    if _callee(site) != "append" or not _is_self(f, _recv(site)):
        return False
    if site.exc not in ("KeyError", "ValueError") or site.origin[0] not in _append_family(atom):
        return False
    c = site.call
    if len(c.args) != 1 or c.keywords or not isinstance(c.args[0], ast.Name):
        return False
    tops = list(f.node.body)
    second = next((st for st in tops if isinstance(st, ast.For) and any(x is c for x in ast.walk(st))), None)
    if second is None or not (isinstance(second.target, ast.Name) and second.target.id == c.args[0].id
                              and isinstance(second.iter, ast.Name) and second.iter.id in f.params):
        return False
    p = second.iter.id
    if any(isinstance(t, ast.Name) and t.id == p and isinstance(t.ctx, ast.Store) for t in ast.walk(f.node)):
        return False
    i2 = tops.index(second)
    firsts = [st for st in tops[:i2] if isinstance(st, ast.For)]
    kinds = set()
    if firsts:
        first = firsts[-1]
        between = tops[tops.index(first) + 1:i2]
        if any(isinstance(x, (ast.Call, ast.Attribute)) for st in between for x in ast.walk(st)):
            return False
        kinds = _precheck_loop(atom, f, first, p)
    else:
        # the checking pass may live in a private helper that is called with the same iterable right before the second loop
        from .symtext import _is_private_helper_call
        calls = [(i, st) for i, st in enumerate(tops[:i2]) if isinstance(st, ast.Expr) and isinstance(st.value, ast.Call)
                 and any(isinstance(a, ast.Name) and a.id == p for a in st.value.args)]
        for i, st in reversed(calls):
            h = _is_private_helper_call(f, st.value)
            if h is None or h is f:
                continue
            if any(isinstance(x, (ast.Call, ast.Attribute)) for st2 in tops[i + 1:i2] for x in ast.walk(st2)):
                return False
            hoff = 1 if (h.has_self and isinstance(st.value.func, ast.Attribute)) else 0
            idx = [j for j, a in enumerate(st.value.args) if isinstance(a, ast.Name) and a.id == p]
            if not idx or idx[0] + hoff >= len(h.params):
                continue
            hp = h.params[idx[0] + hoff]
            if any(isinstance(t, ast.Name) and t.id == hp and isinstance(t.ctx, ast.Store) for t in ast.walk(h.node)):
                continue
            # the helper must be the method's own helper on the same object (its self is our self) or a plain function
            if h.has_self and not (isinstance(st.value.func, ast.Attribute) and _is_self(f, st.value.func.value)):
                continue
            hloops = [x for x in h.node.body if isinstance(x, ast.For)]
            if len(hloops) != 1 or any(isinstance(x, (ast.Return,)) for x in ast.walk(h.node) if x is not h.node):
                continue
            kinds = _precheck_loop(atom, h, hloops[0], hp)
            break
    want = {"BaseSection"} if f.short == "base.Sectionable.extend" else {"BaseSection", "BaseProperty"}
    return kinds == want


ATOM_CONTRACTS = [
    {"id": "INV-I", "match": inv_i_remove, "derived": True,
     "reason": "X._parent.remove(X) guarded by `X._parent is not None`: under the tree invariant of C03 X is listed in its parent, "
               "so SmartList.index cannot fail",
     "obligations": "C03 PAIR-1/OWN-1 (invariant I holds after every owner function)"},
    {"id": "VALIDATED", "match": validated_conversion, "derived": True,
     "reason": "dtypes.get(v, self.dtype) for the values X after self._validate_values(X) returned True on the same path with "
               "no store to X or _dtype in between: _validate_values made exactly these calls and caught every exception",
     "obligations": "shape of BaseProperty._validate_values is re-checked on every run"},
    {"id": "MERGE-EXTEND", "match": merge_extend_after_check, "derived": False,
     "reason": "BaseProperty.merge -> self.extend: extend's refusals were checked by merge_check(other, strict) on the same values",
     "obligations": "C13 DOM-6 (merge_check dominates every write), VAL-1 (same values), SIB-2 (dtype tested under strict)"},
    {"id": "MERGE-REC", "match": merge_recursion_after_check, "derived": False,
     "reason": "BaseSection.merge -> mine.merge(obj, strict): the nested merge_check repeats a check the outer merge_check "
               "already passed for the same pair and flag",
     "obligations": "C13 SIB-2 (check mirrors merge), FWD-1 (strict forwarded)"},
    {"id": "MERGE-APPEND-PROP", "match": merge_append_property_clone, "derived": False,
     "reason": "BaseSection.merge -> self.append(clone of a Property): contains() compares Property names only, exactly what "
               "SmartList.append refuses on",
     "obligations": "C13 SEL-1 for Properties (BaseSection.contains compares name only)"},
    {"id": "CLONE-APPEND", "match": clone_append_unique_names, "derived": False,
     "reason": "Sectionable.clone / BaseSection.clone -> obj.append(child.clone()): the copy's lists start empty and the "
               "original's sibling names are unique",
     "obligations": "C04 DOM-3/DOM-4 (sibling names unique), C11 ALIAS-1 (lists re-bound to empty SmartLists before the loop)"},
    {"id": "CLONE-VALUES", "match": clone_values_conform, "derived": False,
     "reason": "BaseProperty.clone -> obj.values = self._values: stored values conform to the dtype the copy shares (C05)",
     "obligations": "C05 PROV-3/OWN-3 (every stored value is a conversion result for the current dtype)"},
    {"id": "EXPORT-LEAF", "match": export_leaf_appends_clones, "derived": False,
     "reason": "BaseSection.export_leaf -> par.append(child): only fresh clones are appended to fresh clones (child is self only "
               "while `curr != self` is false), so a refusal cannot leave the document changed",
     "obligations": "C11 LEAF-1 (every object handled in export_leaf is a clone)"},
    {"id": "PRECHECKED", "match": extend_names_prechecked, "derived": True,
     "reason": "extend -> self.append(obj) in a second loop over the parameter: the first loop refused foreign kinds, names used in "
               "the child list of the kind and names repeated inside the argument, so append's kind and clash refusals are dead",
     "obligations": "shape of the first loop is re-checked on every run (kind, child list and seen-names tests known at the "
                    "statement that records the name; every completed iteration records it)"},
    {"id": "UNMERGE-REMOVE", "match": unmerge_remove_found_child, "derived": False,
     "reason": "BaseSection.unmerge -> self.remove(obj): obj came from self.contains(...) in the same activation",
     "obligations": "removals holds only results of self.contains; no removal between selection and remove"},
]
