#!/usr/bin/env python3
"""adhoc.py <PID[,PID]> <file> <old> <new> : apply one textual edit in memory and list new violations (quick mutation probe)."""
import os, sys
sys.path.insert(0, os.path.dirname(os.path.dirname(os.path.abspath(__file__))))
os.environ["ODMLSA_NOEVIDENCE"] = "1"
from odmlsa.model import load_sources, AnalysisError
from odmlsa.selftest import _run_check_on
pids, path, old, new = sys.argv[1:5]
src = load_sources()
old = old.encode().decode("unicode_escape"); new = new.encode().decode("unicode_escape")
assert src[path].count(old) == 1, "old text occurs %d times" % src[path].count(old)
src[path] = src[path].replace(old, new)
compile(src[path], path, "exec")
for pid in pids.split(","):
    try:
        v, rep = _run_check_on(pid, src)
        print(pid, "violations:", len(v))
        for i in v[:6]:
            print("   [%s] %s :: %s" % (i["rule"], i["instance"][:80], i.get("detail", "")[:160]))
    except AnalysisError as exc:
        print(pid, "ANALYSIS-ERROR", exc)
