#!/bin/bash
# own.sh [ONLY=C04,...] : every seed against its own property's check; prints one line per seed
cd /verif; OWN=1 python3 tools/seed_matrix.py ${1:-/tmp/seed} | python3 -c "
import json,sys
d=json.load(sys.stdin)
for s in sorted(d):
    for pid,(st,det) in d[s].items():
        print(s,pid,st,det[:1] if st!='violation' else det[0][:70])
"
