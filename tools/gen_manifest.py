#!/usr/bin/env python3
"""Generate /verif/MANIFEST.json from the checks that exist under odmlsa/checks/."""
import json
import os
import sys

VERIF = os.path.dirname(os.path.dirname(os.path.abspath(__file__)))
sys.path.insert(0, VERIF)

CLAIMS = {
    "C01": ("vocabulary/table/ordering clauses only",
            "Decides the structural necessary conditions of the XML round trip: format tables agree with the model "
            "classes (readable + constructible) and with the odML 1.1 vocabulary; every tag the writer emits comes "
            "from that table and the reader tests the same table; version stamp and strict check use one constant; "
            "attributes are skipped only when None; stylesheet variants only insert the template after the root tag; "
            "XMLWriter.write_file renders before opening; reader loops carry no state between siblings; "
            "parse_cardinality inverts str(tuple) for every order type. NOT decided: value encoding (CSV/tuple), "
            "dtype text round trip, lxml escaping, equality of documents.",
            "table agreement + tag provenance + ordering typestate + order-type abstract interpretation (ast)"),
    "C02": ("layout/table/guard clauses only",
            "Decides: format tables agree with the model classes; every key DictWriter emits is accepted by DictReader "
            "for the same format; writer, dict reader and RDF reader agree on the root keys and the version constant; "
            "JSON and YAML share one DictWriter/DictReader path with no format specific transformation; no set-but-falsy "
            "attribute (uncertainty 0, empty values) is dropped by a truthiness test; date/time serialisers cover the "
            "non-JSON value types; reader/writer loops carry no state between siblings; parse_cardinality inverts "
            "list(tuple) for every order type. NOT decided: scalar re-typing by PyYAML/json, whitespace, equality of documents.",
            "table agreement + def-use (reaching definitions) + truthiness-guard lint + order-type abstract interpretation (ast)"),
    "C07": ("whole statement except I/O faults of write()",
            "Decides by dominance/ordering on the writer's CFG: Validation(doc) -> is_error loop -> raise ParserException "
            "dominates every file creating effect of ODMLWriter.write_file for every backend; fileio.save reaches the file "
            "system only through it; at every write-mode open() of the package the content is computed before the file is "
            "opened and only un-failable expressions are evaluated while it is open; nothing that can raise runs after a "
            "file was written. NOT decided: I/O faults of write() itself; which documents the rules flag (C08).",
            "CFG dominance (must-pass-through) + compute-before-open typestate + who-may-call (ast)"),
    "C09": ("whole statement",
            "Decides exhaustively over order types: format_cardinality returns None / a normal-form pair / ValueError; "
            "the three cardinality fields are stored only as format_cardinality(v) so a refused assignment keeps the old "
            "value; _cardinality_validation reports iff count < min or count > max and the three rules pass matching "
            "field/attribute/rank/id; no code but getters, rules and serialisers reads a cardinality (never enforced); "
            "both parse_cardinality functions invert the writers' rendering; cardinalities are format keys, readable and "
            "constructor keywords.",
            "finite abstract interpretation over order types (odmlsa's own AST evaluator, no import of odml) + provenance of stores + reader-set ownership"),
}

NOT_APPLICABLE = {
    "C14": "every clause relates concrete tree shapes and name strings to results of string/path arithmetic "
           "(posixpath, split) and queue-order iteration; no ordering/pairing/ownership/table clause exists whose "
           "violation is visible without evaluating those functions on values (termination of the walks is covered "
           "under C03); a literal-agreement lint would be a brittle proxy",
}

PENDING_REASON = "check under construction in this session (engine exists, rule set not armed yet) - not claimed until it is"


def main():
    props = [json.loads(l) for l in open(os.path.join(VERIF, "properties.jsonl"))]
    checks = []
    na = []
    for p in props:
        pid = p["id"]
        have = os.path.exists(os.path.join(VERIF, "odmlsa", "checks", pid.lower() + ".py"))
        if pid in NOT_APPLICABLE:
            na.append({"property_id": pid, "reason": NOT_APPLICABLE[pid]})
            continue
        if not have or pid not in CLAIMS:
            na.append({"property_id": pid, "reason": PENDING_REASON})
            continue
        scope, text, technique = CLAIMS[pid]
        checks.append({
            "property_id": pid,
            "quick_cmd": "python3 -m odmlsa.check %s --tier quick" % pid,
            "thorough_cmd": "python3 -m odmlsa.check %s --tier thorough" % pid,
            "evidence_file": "/verif/evidence/%s.json" % pid,
            "replay_cmd_template": "python3 -m odmlsa.check %s --replay {path}" % pid,
            "engine": "odmlsa",
            "level_claimed": {"category": "other",
                              "text": "[%s] %s" % (scope, text),
                              "design_ref": "DESIGN.md section 5, %s" % pid},
            "level_note": "Trusted base: python ast parser; odmlsa engine (program model, CFG, kinds, summaries); "
                          "reviewed tables in odmlsa/tables.py (library call classification, odML 1.1 vocabulary, "
                          "documented validation rules). Decides the named structural clauses on every path of the "
                          "parsed source; value-level clauses are explicitly not decided.",
            "technique": technique,
        })
    man = {
        "version": 1,
        "setup_cmd": "python3 -c \"import ast, sys; sys.path.insert(0, '/verif'); import odmlsa.check\"",
        "hooks": {"guard": "ODML_VERIF", "enable": "none needed: static analysis reads /repo's working tree, no instrumentation",
                  "baseline_off_cmd": "cd /repo && /venv/bin/python -m pytest -ra -q -p no:cacheprovider --timeout=900 "
                                      "--continue-on-collection-errors",
                  "source_commits": [], "add_only": True},
        "engines": [{"name": "odmlsa", "path": "/verif/odmlsa",
                     "serves_properties": [c["property_id"] for c in checks],
                     "kind_free_text": "bespoke static analyser for python-odml: ast program model with MRO and property "
                                       "resolution, statement CFG with exception edges, dominators, reaching definitions, "
                                       "kind inference, effect/raise summaries, typestate rules, table agreement, finite "
                                       "order-type abstract interpretation; never imports or runs odml"}],
        "checks": checks,
        "not_applicable": na,
        "notes": "Repository repairs (unguarded 'fix:' commits in /repo) are listed in /verif/known_findings.json "
                 "with status 'fixed'; recorded, unrepaired defects have status 'known'. See DESIGN.md section 7.",
    }
    with open(os.path.join(VERIF, "MANIFEST.json"), "w") as fobj:
        json.dump(man, fobj, indent=1)
    print("MANIFEST: %d checks, %d not_applicable" % (len(checks), len(na)))


if __name__ == "__main__":
    main()
