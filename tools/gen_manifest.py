#!/usr/bin/env python3
"""Generate /verif/MANIFEST.json from the checks that exist under odmlsa/checks/."""
import json
import os
import sys

VERIF = os.path.dirname(os.path.dirname(os.path.abspath(__file__)))
sys.path.insert(0, VERIF)

CLAIMS = {
    "C01": ("vocabulary/table/ordering clauses only",
            "Decides the structural necessary conditions of the XML round trip: format tables agree with the model "
            "classes (readable + constructible) and with the odML 1.1 vocabulary; every tag the writer emits comes "
            "from that table and the reader tests the same table; version stamp and strict check use one constant; "
            "attributes are skipped only when None; stylesheet variants only insert the template after the root tag; "
            "XMLWriter.write_file renders before opening; reader loops carry no state between siblings; "
            "parse_cardinality inverts str(tuple) for every order type. NOT decided: value encoding (CSV/tuple), "
            "dtype text round trip, lxml escaping, equality of documents.",
            "table agreement + tag provenance + ordering typestate + order-type abstract interpretation (ast)"),
    "C02": ("layout/table/guard clauses only",
            "Decides: format tables agree with the model classes; every key DictWriter emits is accepted by DictReader "
            "for the same format; writer, dict reader and RDF reader agree on the root keys and the version constant; "
            "JSON and YAML share one DictWriter/DictReader path with no format specific transformation; no set-but-falsy "
            "attribute (uncertainty 0, empty values) is dropped by a truthiness test; date/time serialisers cover the "
            "non-JSON value types; reader/writer loops carry no state between siblings; parse_cardinality inverts "
            "list(tuple) for every order type. NOT decided: scalar re-typing by PyYAML/json, whitespace, equality of documents.",
            "table agreement + def-use (reaching definitions) + truthiness-guard lint + order-type abstract interpretation (ast)"),
    "C03": ("whole invariant on normal exits; exceptional exits are C06",
            "Inductive representation invariant: (base) _parent and the child lists are written only by an enumerated, closed "
            "set of owner functions (kinds-resolved receivers), everything else goes through their API; (step) symbolic "
            "simulation of every normal CFG path of every owner function, with owner-API calls replaced by their verified "
            "contracts, ends with list membership and parent pointer in agreement; detach-or-refuse before a second listing; "
            "ancestry guard before a Section is put below a Section; identity based removal; parent chain walks advance on "
            "every iteration. Ten genuine defects of the pinned tree are recorded as known findings (double listing, cycles, "
            "inherited list mutators). NOT decided: ==-based lookups picking the intended element; _reorder index arithmetic.",
            "ownership (who-may-write) + pairing typestate by path simulation + dominance (ast, CFG, kind inference)"),
    "C04": ("whole statement up to value-level equality of names",
            "Decides: a raising name-clash test against the destination list dominates every primitive add to a child list; the "
            "rename setters test the parent's list of the object's own kind and fall back to the id for empty names; the "
            "constructors' name fallback dominates the name store on every path including the malformed-id handler path; every id "
            "stored is str(uuid.UUID(.)) or str(uuid.uuid4()), only by constructors and new_id; malformed ids are replaced by the "
            "constructors and rejected by new_id; the three classes agree; removal is by identity. Two known findings "
            "(item assignment, inherited list adders). NOT decided: __contains__ vs plain name equality; uuid.UUID normalisation.",
            "CFG dominance + reaching definitions + provenance of stored values + sibling skeleton agreement (ast)"),
    "C05": ("shape clauses",
            "Decides: closed writer sets for _values and _dtype; every element entering _values is dtypes.get(input, current dtype) "
            "evaluated after the last dtype store; every dtype stored is None / passed valid_type / infer_dtype / a rollback; the "
            "dispatch table covers every DType member; every converter returns the python type of its dtype (second resolution, no "
            "pass-through); refused value edits leave _values and _dtype untouched (ATOM restricted to those fields); rollback "
            "handlers catch everything. NOT decided: acceptance sets, idempotence per value, tuple import heuristics, strict mode.",
            "ownership + provenance + table agreement + return-form check + validate-before-mutate path replay (ast, CFG, summaries)"),
    "C06": ("whole statement within the raise vocabulary",
            "ATOM (validate-before-mutate): every exceptional CFG path of every method of the model classes is replayed in "
            "evaluation order with interprocedural write summaries (receiver origins) and raise summaries (explicit raises + "
            "reviewed library raises, discharged by literals, kinds and established facts; callee = [raises][writes][late raises]); "
            "no visible write may be in effect when an exception escapes; rollback stores cancel; constructors build a fresh "
            "object until it is published; rollback handlers must be catch-all. Eleven genuine defects are recorded as known "
            "findings; five were repaired by fix: commits. NOT decided: exceptions outside the vocabulary (MemoryError, "
            "AttributeError from foreign objects, library internals).",
            "validate-before-mutate typestate over all exceptional CFG paths with effect and raise summaries (ast, CFG, call graph)"),
    "C07": ("whole statement except I/O faults of write()",
            "Decides by dominance/ordering on the writer's CFG: Validation(doc) -> is_error loop -> raise ParserException "
            "dominates every file creating effect of ODMLWriter.write_file for every backend; fileio.save reaches the file "
            "system only through it; at every write-mode open() of the package the content is computed before the file is "
            "opened and only un-failable expressions are evaluated while it is open; nothing that can raise runs after a "
            "file was written; the duplicate-id error rule shares one id map. NOT decided: I/O faults of write() itself; "
            "which documents the rules flag (C08).",
            "CFG dominance (must-pass-through) + compute-before-open typestate + who-may-call (ast)"),
    "C08": ("registry, rank and totality clauses; cardinality rules exactly",
            "Decides: every documented rule is registered for exactly the documented object kinds (handler -> IssueID derived); "
            "every ValidationError carries the documented rank; rules and driver cannot raise (empty raise summaries, guarded "
            "indexing and named lookups, attributes exist on the inferred classes); the unique-id rules thread one id map through "
            "the traversal; the driver visits every Section and Property; cardinality reports are exact over order types. "
            "NOT decided: iff-semantics of the other rules on arbitrary documents.",
            "table agreement + exception-escape summaries + typed attribute check + abstract interpretation (ast, kinds)"),
    "C09": ("whole statement",
            "Decides exhaustively over order types: format_cardinality returns None / a normal-form pair / ValueError; "
            "the three cardinality fields are stored only as format_cardinality(v) so a refused assignment keeps the old "
            "value; _cardinality_validation reports iff count < min or count > max and the three rules pass matching "
            "field/attribute/rank/id; no code but getters, rules and serialisers reads a cardinality (never enforced); "
            "both parse_cardinality functions invert the writers' rendering; cardinalities are format keys, readable and "
            "constructor keywords.",
            "finite abstract interpretation over order types (odmlsa's own AST evaluator, no import of odml) + provenance of stores + reader-set ownership"),
    "C10": ("graph shape / table clauses",
            "Decides: RDF attribute tables agree with the model classes and with what the dictionary reader accepts; one node per "
            "object named by its id, linked from the parent by that very node; one constant Hub; nodes typed with rdf_type or with a "
            "sub-class declared subClassOf on the same path, only with the switch on; values form one fresh rdf:Seq per call filled "
            "in list order and read through rdflib's Seq; no set-but-falsy attribute dropped; ids recovered from the URI. "
            "NOT decided: literal fidelity, equality of re-imported documents, sibling order.",
            "table agreement + def-use/provenance of graph nodes + dominance (ast)"),
    "C11": ("aliasing / freshness / id policy clauses",
            "Decides: every clone chain re-binds every mutable container field of the copy with element-fresh containers and detaches "
            "it; children are added only as clones and only under `if children`; new_id iff not keep_id in Document, Section and "
            "Property, keep_id forwarded to every recursive clone; export_leaf clones with keep_id=True / children=False; the values "
            "getter copies the list and inner tuple lists; value mutators store converted values only. NOT decided: clone() == "
            "original (value level).",
            "must-write dominance + origin (freshness) analysis + argument forwarding check (ast, CFG, summaries)"),
    "C12": ("footprint clauses",
            "Decides: everything finalize / the link and include setters / merge write is the linking Section, its children or the "
            "terminology cache (interprocedural write summaries with receiver origins); only fresh clones are added and only for "
            "children without counterpart; strict=False is used and forwarded; clean/unmerge write only the linking Section and its "
            "children; the relative link is recomputed from the object the link is resolved from; link/include are persisted "
            "attributes. NOT decided: the restoration law, relative path arithmetic, chained links.",
            "effect (write footprint) summaries over the call graph with receiver origins (ast, kinds)"),
    "C13": ("structural clauses",
            "Decides: merge_check(source, strict) dominates every write of both merge functions; the check visits what the merge "
            "visits (same iteration and selector, recursion, no early exit) and tests under strict every copied attribute plus dtype; "
            "attributes are filled only when unset in the destination and set in the source; strict forwarded everywhere; the source "
            "tree is never written; every source child is merged or cloned. One known finding (name/type selector mismatch). "
            "NOT decided: value level merging of value lists, text normalisation.",
            "CFG dominance + sibling skeleton agreement + write footprint summaries (ast)"),
    "C14": ("traversal / lookup discipline clauses; the relative path arithmetic is not decided",
            "Decides: itersections is a FIFO work list (breadth first) whose loop ends only when the list is empty; every dequeued "
            "(section, level) is yielded only under filter_func and the yield_self rule and has its children enqueued exactly once as "
            "(child, level + 1) exactly when max_depth allows; the seeds are (self, 0) or the Document's children at level 1; "
            "iterproperties / itervalues are derived from it with max_depth forwarded and yield each element under their filter; path "
            "builders and parsers use the same separators; path lookup descends through the node's own children / parent / document; "
            "find inspects the own children only; find_related hands out an object only inside the block of the requested relation "
            "flag and recurses with siblings=False, parents=False. NOT decided: _get_relative_path's string arithmetic, that a name "
            "denotes one child (C04), the value comparisons of _matches.",
            "work-list typestate + path-form guards over expanded expressions + separator table agreement (ast, CFG)"),
    "C15": ("logging / table / source clauses",
            "Decides: every dropped element is logged in the same block; the filters test the 1.1 table of the matching level; created "
            "and renamed tags are 1.1 keys; ids kept when valid, replaced when missing or malformed, always present; root stamped with "
            "FORMAT_VERSION on every path; dictionary front ends create one element per key and never filter on content; separate "
            "name maps for Sections and Properties; source opened read-only, output rendered before the target is opened. "
            "NOT decided: preservation of tree, values and lifted attributes.",
            "drop=>log pairing + table agreement + dominance + open-mode ownership (ast)"),
    "C16": ("whole statement for the XML reader and the dictionary reader",
            "Decides: the raise summaries of XMLReader.from_string/from_file and DictReader.to_odml contain only ParserException / "
            "InvalidVersionException; every reader call into the model layer sits in try/except Exception -> self.error; error() only "
            "warns in lenient mode and raises ParserException otherwise; lxml syntax errors are converted; parse_cardinality is total "
            "on every order type; reader loops carry no state between siblings. One known finding (_csv.Error from from_csv). "
            "NOT decided: library internals, wrong-shaped dictionaries, YAML scanner errors of the text front end.",
            "exception-escape bound from interprocedural raise summaries + layering (dominating handler) check (ast, CFG, call graph)"),
    "C17": ("isolation and write-provenance clauses",
            "Decides: in both command line tools every failing call of the per-file loop is inside a catch-all handler that reports; "
            "no early exit from the loop; every output path is join(fresh output directory, constant % splitext(basename(input))[0]); "
            "the directories come from tempfile.mkdtemp; no destructive file call anywhere; each file list is converted with the "
            "format of its glob, unconditionally; FormatConverter writes only output_path and derives the implicit directory next to "
            "the input. NOT decided: byte identity of inputs, content of outputs.",
            "exception-escape/layering check on the loop body + path provenance (def-use) + sink ownership (ast, summaries)"),
    "C18": ("four ordering clauses; the schedule-equivalence core is not decided",
            "Decides for both loaders: fetch and decode complete before the cache file is opened and a failed fetch reaches no write; "
            "the loader thread is registered before it is started, only for unknown URLs; load joins a registered loader before pop "
            "and retry; a document is published in the shared table only after from_file and finalize completed, by nobody else; "
            "callers request the deferred load first. NOT decided: equivalence of all interleavings, data races, cyclic includes.",
            "CFG dominance / ordering typestate on single resources + ownership of the shared table (ast)"),
    "C19": ("whole statement",
            "Decides: every registered rule and the Validation driver write nothing but the issue list and the threaded id map "
            "(transitive write summaries with receiver origins); the class level default registry is written only by "
            "register_handler, which nothing in the package calls at run time; reset=True shadows the registry on every path; every "
            "register_custom_handler call site uses a receiver built with reset=True; a re-run starts from an empty issue list.",
            "effect-freedom from interprocedural write summaries + registry ownership + constructor-flag typestate (ast, kinds)"),
    "C20": ("vocabulary / attribute-table clauses",
            "Decides: the attribute alternations of the six parser regexes equal the RDF tables of the matching format; every term of "
            "the query templates is written by the exporter (two known findings: rdf:Bag / rdf:li versus the exported rdf:Seq); "
            "Doc/Sec/Prop keys agree everywhere; parsers keep no state between queries; subset generation has the documented DFS "
            "skeleton, duplicates decided on the attribute name, longest first, empty results omitted. NOT decided: SPARQL semantics.",
            "table agreement (regex alternations, vocabulary) + shared-state lint + recursion skeleton check (ast)"),
}

NOT_APPLICABLE = {}

PENDING_REASON = "check under construction in this session (engine exists, rule set not armed yet) - not claimed until it is"


def main():
    props = [json.loads(l) for l in open(os.path.join(VERIF, "properties.jsonl"))]
    checks = []
    na = []
    for p in props:
        pid = p["id"]
        have = os.path.exists(os.path.join(VERIF, "odmlsa", "checks", pid.lower() + ".py"))
        if pid in NOT_APPLICABLE:
            na.append({"property_id": pid, "reason": NOT_APPLICABLE[pid]})
            continue
        if not have or pid not in CLAIMS:
            na.append({"property_id": pid, "reason": PENDING_REASON})
            continue
        scope, text, technique = CLAIMS[pid]
        checks.append({
            "property_id": pid,
            "quick_cmd": "python3 -m odmlsa.check %s --tier quick" % pid,
            "thorough_cmd": "python3 -m odmlsa.check %s --tier thorough" % pid,
            "evidence_file": "/verif/evidence/%s.json" % pid,
            "replay_cmd_template": "python3 -m odmlsa.check %s --replay {path}" % pid,
            "engine": "odmlsa",
            "level_claimed": {"category": "other",
                              "text": "[%s] %s" % (scope, text),
                              "design_ref": "DESIGN.md section 5, %s" % pid},
            "level_note": "Trusted base: python ast parser; odmlsa engine (program model, CFG, kinds, summaries); "
                          "reviewed tables in odmlsa/tables.py (library call classification, odML 1.1 vocabulary, "
                          "documented validation rules). Decides the named structural clauses on every path of the "
                          "parsed source; value-level clauses are explicitly not decided.",
            "technique": technique,
        })
    man = {
        "version": 1,
        "setup_cmd": "python3 -c \"import ast, sys; sys.path.insert(0, '/verif'); import odmlsa.check\"",
        "hooks": {"guard": "ODML_VERIF", "enable": "none needed: static analysis reads /repo's working tree, no instrumentation",
                  "baseline_off_cmd": "cd /repo && /venv/bin/python -m pytest -ra -q -p no:cacheprovider --timeout=900 "
                                      "--continue-on-collection-errors",
                  "source_commits": [], "add_only": True},
        "engines": [{"name": "odmlsa", "path": "/verif/odmlsa",
                     "serves_properties": [c["property_id"] for c in checks],
                     "kind_free_text": "bespoke static analyser for python-odml: ast program model with MRO and property "
                                       "resolution, statement CFG with exception edges, dominators, reaching definitions, "
                                       "kind inference, effect/raise summaries, typestate rules, table agreement, finite "
                                       "order-type abstract interpretation; never imports or runs odml"}],
        "checks": checks,
        "not_applicable": na,
        "notes": "Repository repairs (unguarded 'fix:' commits in /repo) are listed in /verif/known_findings.json "
                 "with status 'fixed'; recorded, unrepaired defects have status 'known'. See DESIGN.md section 7.",
    }
    with open(os.path.join(VERIF, "MANIFEST.json"), "w") as fobj:
        json.dump(man, fobj, indent=1)
    print("MANIFEST: %d checks, %d not_applicable" % (len(checks), len(na)))


if __name__ == "__main__":
    main()
