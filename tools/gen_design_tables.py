#!/usr/bin/env python3
"""Regenerate the seeds x checks table of DESIGN.md (between the SEED-TABLE markers) from seeded/*/meta.json."""
import glob, json, os, re
V = os.path.dirname(os.path.dirname(os.path.abspath(__file__)))
rows = ["| seed | change (file, function) | needs to manifest | first report of the own check | also reported by |",
        "|------|-------------------------|-------------------|-------------------------------|------------------|"]
for d in sorted(glob.glob(os.path.join(V, "seeded", "*"))):
    mp = os.path.join(d, "meta.json")
    if not os.path.exists(mp):
        continue
    m = json.load(open(mp))
    name = os.path.basename(d)
    own = name[:3]
    summ = re.sub(r"\s+", " ", m.get("summary", ""))[:150].replace("|", "/")
    need = re.sub(r"\s+", " ", m.get("needs_to_manifest", ""))[:110].replace("|", "/")
    first = (m.get("first_report") or [""])[0][:70].replace("|", "/")
    det = m.get("detected_by", [])
    others = ", ".join(x for x in det if x != own) or "-"
    mark = "" if own in det else " **(own check silent: %s)**" % m.get("why_missed", "see meta.json")
    rows.append("| %s | %s | %s | %s%s | %s |" % (name, summ, need, first, mark, others))
table = "\n".join(rows)
p = os.path.join(V, "DESIGN.md")
s = open(p).read()
if "SEED_TABLE_PLACEHOLDER" in s:
    s = s.replace("SEED_TABLE_PLACEHOLDER", "<!-- SEED-TABLE-BEGIN -->\n" + table + "\n<!-- SEED-TABLE-END -->")
else:
    s = re.sub(r"<!-- SEED-TABLE-BEGIN -->.*?<!-- SEED-TABLE-END -->", lambda _: "<!-- SEED-TABLE-BEGIN -->\n" + table + "\n<!-- SEED-TABLE-END -->", s, flags=re.S)
open(p, "w").write(s)
print("%d seeds" % (len(rows) - 2))
