#!/usr/bin/env python3
"""gen_roles.py : (re)generate odmlsa/tables/private_roles.json from the current /repo tree.
Run only after the tree was confirmed (all checks green): the table freezes the private names the rules are written against."""
import ast, json, os, sys
sys.path.insert(0, os.path.dirname(os.path.dirname(os.path.abspath(__file__))))
from odmlsa.model import load_sources, PKG
from odmlsa.roles import profiles, TABLE
out = {}
for path, text in sorted(load_sources().items()):
    if not path.endswith(".py") or not path.startswith(PKG + "/"):
        continue
    name = path[:-3].replace("/", ".")
    if name.endswith(".__init__"):
        name = name[:-9]
    p = profiles(ast.parse(text))
    if p:
        out[name] = p
with open(TABLE, "w") as fobj:
    json.dump(out, fobj, indent=1, sort_keys=True)
print("private functions:", sum(len(t) for m in out.values() for t in m.values()), "in", len(out), "modules")
