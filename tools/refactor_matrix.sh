#!/bin/bash
# usage: refactor_matrix.sh <tree> ... : run every check (quick) against behaviour preserving refactorings; any VIOLATION / ANALYSIS-ERROR is a false alarm
cd /verif
for t in "$@"; do
  for c in 01 02 03 04 05 06 07 08 09 10 11 12 13 14 15 16 17 18 19 20; do
    echo "$t C$c"
  done
done | xargs -P 16 -L 1 bash -c 'out=$(ODMLSA_REPO=$0 ODMLSA_NOEVIDENCE=1 python3 -m odmlsa.check $1 --tier quick 2>&1); rc=$?; echo "== $0 $1 rc=$rc"; if [ $rc -ne 0 ]; then echo "$out" | grep -v KNOWN-FINDING | grep -E "VIOLATION|ANALYSIS-ERROR|FAIL|violation" | head -12; fi'
