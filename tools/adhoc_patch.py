#!/usr/bin/env python3
"""adhoc_patch.py <PID[,PID]> <patch.diff> : apply a unified diff in memory and list new violations."""
import os, sys
sys.path.insert(0, os.path.dirname(os.path.dirname(os.path.abspath(__file__))))
os.environ["ODMLSA_NOEVIDENCE"] = "1"
from odmlsa.model import load_sources, AnalysisError
from odmlsa.selftest import _run_check_on, apply_unified_diff
pids, patch = sys.argv[1:3]
src = apply_unified_diff(load_sources(), open(patch).read())
for pid in pids.split(","):
    try:
        v, rep = _run_check_on(pid, src)
        print(pid, "violations:", len(v))
        for i in v[:8]:
            print("   [%s] %s :: %s" % (i["rule"], i["instance"][:80], i.get("detail", "")[:200]))
    except AnalysisError as exc:
        print(pid, "ANALYSIS-ERROR", exc)
