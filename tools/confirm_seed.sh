#!/bin/bash
# usage: confirm_seed.sh <patch> <demo.py>  -> prints CONFIRMED / reason ; uses a scratch worktree outside /repo and /verif
PATCH=$1; DEMO=$2
WT=/tmp/wt/confirm_$$
git -C /repo worktree add -q --detach $WT HEAD || { echo "NOWT"; exit 3; }
cd $WT
PYTHONPATH=$WT timeout 300 /venv/bin/python $DEMO >/dev/null 2>&1; clean=$?
if ! git apply $PATCH 2>/dev/null; then echo "PATCH-DOES-NOT-APPLY"; cd /; git -C /repo worktree remove --force $WT; exit 2; fi
suite=$(timeout 600 /venv/bin/python -m pytest -q -p no:cacheprovider --timeout=900 2>&1 | tail -1)
PYTHONPATH=$WT timeout 300 /venv/bin/python $DEMO >/dev/null 2>&1; mut=$?
cd /; git -C /repo worktree remove --force $WT
echo "clean_exit=$clean mutant_exit=$mut suite='$suite'"
if [ "$clean" = "0" ] && [ "$mut" != "0" ] && echo "$suite" | grep -q "2 failed, 238 passed"; then echo CONFIRMED; else echo NOT-CONFIRMED; fi
