#!/bin/bash
# usage: try_seed.sh <patch file> <check ids...>   -- applies the patch in a scratch worktree and runs the checks there
set -u
PATCH=$1; shift
WT=/tmp/wt/scratch_$$
git -C /repo worktree add -q --detach $WT HEAD || exit 3
if ! git -C $WT apply $PATCH 2>/tmp/apply_err_$$; then echo "PATCH DOES NOT APPLY: $(cat /tmp/apply_err_$$)"; fi
for id in "$@"; do
  ( cd /verif && ODMLSA_REPO=$WT ODMLSA_NOEVIDENCE=1 python3 -m odmlsa.check $id 2>&1 | grep -v "^  note:" | head -${LINES_MAX:-12} ; echo "   exit=${PIPESTATUS[0]}" )
done
git -C /repo worktree remove --force $WT
rm -f /tmp/apply_err_$$
