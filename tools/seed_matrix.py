#!/usr/bin/env python3
"""Run every check on every seeded defect (in memory) and print the detection matrix as JSON."""
import glob, json, os, sys, multiprocessing
sys.path.insert(0, os.path.dirname(os.path.dirname(os.path.abspath(__file__))))
os.environ["ODMLSA_NOEVIDENCE"] = "1"
from odmlsa.model import load_sources, AnalysisError
from odmlsa.selftest import apply_unified_diff, _run_check_on

PIDS = ["C%02d" % i for i in range(1, 21)]

def job(args):
    seed, patch_path, pid = args
    base = load_sources()
    patched = apply_unified_diff(base, open(patch_path).read())
    if patched is None:
        return (seed, pid, "noapply", [])
    try:
        new, rep = _run_check_on(pid, patched)
        return (seed, pid, "violation" if new else "silent", ["[%s] %s" % (i["rule"], i["instance"][:70]) for i in new[:2]])
    except AnalysisError as exc:
        return (seed, pid, "analysis-error", [str(exc)[:120]])
    except Exception as exc:
        return (seed, pid, "crash", [repr(exc)[:120]])

def main():
    src = sys.argv[1] if len(sys.argv) > 1 else "/verif/seeded"
    jobs = []
    for p in sorted(glob.glob(os.path.join(src, "*", "patch*.diff"))):
        d = os.path.basename(os.path.dirname(p))
        n = os.path.basename(p).replace("patch", "").replace(".diff", "").strip("_")
        seed = d + ("-" + n if n else "")
        for pid in PIDS:
            if os.environ.get("OWN") and not seed.startswith(pid):
                continue
            if os.environ.get("ONLY") and pid not in os.environ["ONLY"].split(","):
                continue
            jobs.append((seed, p, pid))
    with multiprocessing.Pool(16) as pool:
        res = pool.map(job, jobs, chunksize=2)
    out = {}
    for seed, pid, st, det in res:
        out.setdefault(seed, {})[pid] = (st, det)
    json.dump(out, sys.stdout, indent=1)

if __name__ == "__main__":
    main()
